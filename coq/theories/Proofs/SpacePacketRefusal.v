(* C01, refusal clause beyond the constructor: helper encoders, from_composite_fields, and the
   setter path (the setters do not validate: what pack() then does). *)
From Coq Require Import ZArith List Bool Lia ZifyBool.
From SP Require Import Base.Result Base.Bytes Base.BytesFacts Model.SpacePacket Spec.SpacePacketSpec
  Proofs.SpacePacketProofs.
Import ListNotations.
Open Scope Z_scope.
Ltac Zify.zify_post_hook ::= Z.to_euclidean_division_equations.

(* ================= refusal of out-of-range values outside the constructor ================= *)

(* the two sub-object constructors and the two helper encoders that build them *)
Theorem sph_helpers_refuse t s a f c :
  (~ 0 <= a <= 2047 -> pid_new t s a = Err EValue /\ get_sp_packet_id_raw t s a = Err EValue) /\
  (~ 0 <= c <= 16383 -> psc_new f c = Err EValue /\ get_sp_psc_raw f c = Err EValue).
Proof.
  split; intros H.
  - unfold get_sp_packet_id_raw. rewrite pid_new_err by assumption. split; reflexivity.
  - unfold get_sp_psc_raw. rewrite psc_new_err by assumption. split; reflexivity.
Qed.

(* from_composite_fields refuses like the constructor *)
Theorem sph_from_composite_refuses t a c d s f v :
  ~ (0 <= a <= 2047 /\ 0 <= c <= 16383 /\ 0 <= d <= 65535) ->
  sph_from_composite t a c d s f v = Err EValue.
Proof.
  intros H. rewrite sph_from_composite_is_new. apply sph_new_accepts_iff. assumption.
Qed.

(* pack() itself never raises ValueError: its only failure is struct.error *)
Lemma struct_pack_not_evalue n v : struct_pack n v <> Err EValue.
Proof. unfold struct_pack. destruct (_ && _); discriminate. Qed.

Theorem sph_pack_never_evalue h : sph_pack h <> Err EValue.
Proof.
  unfold sph_pack.
  destruct (struct_pack 2 (Z.lor _ _)) as [w0|e0] eqn:E0; cbn [bind].
  2:{ intros X. injection X as ->. exact (struct_pack_not_evalue _ _ E0). }
  destruct (struct_pack 2 (psc_raw _)) as [w1|e1] eqn:E1; cbn [bind].
  2:{ intros X. injection X as ->. exact (struct_pack_not_evalue _ _ E1). }
  destruct (struct_pack 2 (dlen h)) as [w2|e2] eqn:E2; cbn [bind].
  2:{ intros X. injection X as ->. exact (struct_pack_not_evalue _ _ E2). }
  discriminate.
Qed.

(* data-length setter: an out-of-range value is never encoded, but the refusal is pack()'s
   struct.error, not ValueError *)
Theorem sph_setter_dlen_out_of_range h v : sph_valid h -> ~ 0 <= v <= 65535 ->
  sph_pack (sph_apply h (SoDlen v)) = Err EStruct.
Proof.
  intros H R. pose proof (sph_pack_layout h H) as P. unfold sph_pack in *.
  cbn [sph_apply sph_pid sph_psc ver ptype shf apid sflags scount dlen] in *.
  destruct (struct_pack 2 (Z.lor _ _)) as [w0|e0]; cbn [bind] in *; [|discriminate].
  destruct (struct_pack 2 (psc_raw _)) as [w1|e1]; cbn [bind] in *; [|discriminate].
  unfold struct_pack. change (256 ^ Z.of_nat 2) with 65536.
  destruct (_ && _) eqn:E; [lia|reflexivity].
Qed.

(* APID / sequence-count setters: FALSE that an out-of-range value is refused with ValueError.
   Bits above the field spill into the neighbouring field (bit 11 of the "APID" is the
   secondary-header flag, bit 14 of the "count" the sequence flags) and the header is encoded. *)
Definition sph_zero : sph :=
  {| ver := 0; ptype := 0; shf := 0; apid := 0; sflags := 0; scount := 0; dlen := 0 |}.

Theorem sph_setter_apid_refuted : exists h v, sph_valid h /\ ~ 0 <= v <= 2047 /\
  sph_pack (sph_apply h (SoApid v)) =
    Ok (sph_layout {| ver := ver h; ptype := ptype h; shf := 1; apid := 0;
                      sflags := sflags h; scount := scount h; dlen := dlen h |}).
Proof.
  exists sph_zero, 2048. split; [unfold sph_valid, sph_zero; cbn; lia|].
  split; [lia|]. vm_compute. reflexivity.
Qed.

Theorem sph_setter_count_refuted : exists h v, sph_valid h /\ ~ 0 <= v <= 16383 /\
  sph_pack (sph_apply h (SoCount v)) =
    Ok (sph_layout {| ver := ver h; ptype := ptype h; shf := shf h; apid := apid h;
                      sflags := 1; scount := 0; dlen := dlen h |}).
Proof.
  exists sph_zero, 16384. split; [unfold sph_valid, sph_zero; cbn; lia|].
  split; [lia|]. vm_compute. reflexivity.
Qed.

(* what holds instead, for every out-of-range setter argument: never ValueError *)
Theorem sph_setter_never_evalue h o : sph_pack (sph_apply h o) <> Err EValue.
Proof. apply sph_pack_never_evalue. Qed.

(* values that do not fit the 16-bit word at all are refused (struct.error) *)
Theorem sph_setter_apid_large h v : sph_valid h -> (v < 0 \/ 65536 <= v) ->
  sph_pack (sph_apply h (SoApid v)) = Err EStruct.
Proof.
  intros H R. unfold sph_pack.
  unfold sph_apply, sph_pid, pid_raw.
  cbn [ver ptype shf apid sflags scount dlen pid_ptype pid_shf pid_apid].
  assert (E : struct_pack 2 (Z.lor (Z.shiftl (ver h) 13)
              (Z.lor (Z.lor (Z.shiftl (ptype h) 12) (Z.shiftl (shf h) 11)) v)) = Err EStruct).
  { unfold struct_pack. change (256 ^ Z.of_nat 2) with 65536.
    set (x := Z.lor _ _).
    assert (X : x < 0 \/ 65536 <= x).
    { subst x. destruct H as (Hv & Ht & Hs & _).
      set (k := Z.lor (Z.shiftl (ver h) 13) (Z.lor (Z.shiftl (ptype h) 12) (Z.shiftl (shf h) 11))).
      replace (Z.lor (Z.shiftl (ver h) 13) (Z.lor (Z.lor (Z.shiftl (ptype h) 12) (Z.shiftl (shf h) 11)) v))
        with (Z.lor k v) by (subst k; now rewrite !Z.lor_assoc).
      assert (K : 0 <= k < 65536).
      { subst k. rewrite !Z.shiftl_mul_pow2 by lia.
        split.
        - apply Z.lor_nonneg. split; [lia|]. apply Z.lor_nonneg. lia.
        - apply (Z.log2_lt_cancel). destruct (Z.eq_dec (Z.lor (ver h * 2 ^ 13) (Z.lor (ptype h * 2 ^ 12) (shf h * 2 ^ 11))) 0) as [->|N]; [cbn; lia|].
          rewrite Z.log2_lor by (try apply Z.lor_nonneg; lia).
          rewrite Z.log2_lor by lia.
          change (Z.log2 65536) with 16.
          assert (Z.log2 (ver h * 2 ^ 13) < 16).
          { destruct (Z.eq_dec (ver h) 0) as [->|]; [cbn; lia|]. apply Z.log2_lt_pow2; lia. }
          assert (Z.log2 (ptype h * 2 ^ 12) < 16).
          { destruct (Z.eq_dec (ptype h) 0) as [->|]; [cbn; lia|]. apply Z.log2_lt_pow2; lia. }
          assert (Z.log2 (shf h * 2 ^ 11) < 16).
          { destruct (Z.eq_dec (shf h) 0) as [->|]; [cbn; lia|]. apply Z.log2_lt_pow2; lia. }
          lia. }
      destruct R as [R|R].
      - left. apply Z.lor_neg. right. assumption.
      - right. assert (0 <= Z.lor k v) by (apply Z.lor_nonneg; lia).
        destruct (Z_lt_le_dec (Z.lor k v) 65536) as [L|L]; [|assumption]. exfalso.
        assert (Z.log2 (Z.lor k v) < 16).
        { destruct (Z.eq_dec (Z.lor k v) 0) as [->|]; [cbn; lia|]. apply Z.log2_lt_pow2; lia. }
        rewrite Z.log2_lor in * by lia.
        assert (16 <= Z.log2 v) by (apply Z.log2_le_pow2; lia). lia. }
    destruct (_ && _) eqn:E; [lia|reflexivity]. }
  rewrite E. reflexivity.
Qed.
