(* C01, refusal clause beyond the constructor: helper encoders, from_composite_fields, and the
   setter path (the setters do not validate: what pack() then does). *)
From Coq Require Import ZArith List Bool Lia ZifyBool.
From SP Require Import Base.Result Base.Bytes Base.BytesFacts Model.SpacePacket Spec.SpacePacketSpec
  Proofs.SpacePacketProofs.
Import ListNotations.
Open Scope Z_scope.
Ltac Zify.zify_post_hook ::= Z.to_euclidean_division_equations.

(* ================= refusal of out-of-range values outside the constructor ================= *)

(* the two sub-object constructors and the two helper encoders that build them *)
Theorem sph_helpers_refuse t s a f c :
  (~ 0 <= a <= 2047 -> pid_new t s a = Err EValue /\ get_sp_packet_id_raw t s a = Err EValue) /\
  (~ 0 <= c <= 16383 -> psc_new f c = Err EValue /\ get_sp_psc_raw f c = Err EValue).
Proof.
  split; intros H.
  - unfold get_sp_packet_id_raw. rewrite pid_new_err by assumption. split; reflexivity.
  - unfold get_sp_psc_raw. rewrite psc_new_err by assumption. split; reflexivity.
Qed.

(* from_composite_fields refuses like the constructor *)
Theorem sph_from_composite_refuses t a c d s f v :
  ~ (0 <= a <= 2047 /\ 0 <= c <= 16383 /\ 0 <= d <= 65535) ->
  sph_from_composite t a c d s f v = Err EValue.
Proof.
  intros H. rewrite sph_from_composite_is_new. apply sph_new_accepts_iff. assumption.
Qed.

(* ================= the setter path ================= *)
(* The attribute setters of SpacePacketHeader (apid, seq_count, data_len, and the same assignments
   through packet_id / packet_seq_control) do not validate (Model/SpacePacket.v, sph_apply);
   pack() does: an out-of-range APID / sequence count / data length is never encoded. *)

(* one assignment, from ANY state (also one that is already out of range elsewhere) *)
Theorem sph_setter_apid_refused h v : ~ 0 <= v <= 2047 ->
  sph_pack (sph_apply h (SoApid v)) = Err EValue.
Proof. intros R. apply sph_pack_out_of_range. unfold sph_in_range. cbn [sph_apply apid]. lia. Qed.

Theorem sph_setter_count_refused h v : ~ 0 <= v <= 16383 ->
  sph_pack (sph_apply h (SoCount v)) = Err EValue.
Proof. intros R. apply sph_pack_out_of_range. unfold sph_in_range. cbn [sph_apply scount]. lia. Qed.

Theorem sph_setter_dlen_refused h v : ~ 0 <= v <= 65535 ->
  sph_pack (sph_apply h (SoDlen v)) = Err EValue.
Proof. intros R. apply sph_pack_out_of_range. unfold sph_in_range. cbn [sph_apply dlen]. lia. Qed.

(* a setter whose argument may be ANY integer for the three range-checked fields; the fields that
   nothing validates (packet type, secondary header flag, sequence flags) stay defined *)
Definition sph_op_rest_in_range (o : sph_op) : Prop :=
  match o with
  | SoFlags v => 0 <= v < 4
  | SoPtype v => 0 <= v < 2
  | SoShf v => 0 <= v < 2
  | _ => True
  end.

Lemma sph_apply_rest_valid h o : sph_rest_valid h -> sph_op_rest_in_range o ->
  sph_rest_valid (sph_apply h o).
Proof.
  unfold sph_rest_valid. destruct o; cbn [sph_apply sph_op_rest_in_range ver ptype shf sflags];
    intros; lia.
Qed.

Lemma sph_history_rest_valid ops : forall h, sph_rest_valid h -> Forall sph_op_rest_in_range ops ->
  sph_rest_valid (fold_left sph_apply ops h).
Proof.
  induction ops as [|o ops IH]; intros h H F; cbn [fold_left]; [assumption|].
  inversion F; subst. apply IH; [apply sph_apply_rest_valid|]; assumption.
Qed.

(* pack() of a state with defined version / type / flags: the standard's six octets exactly when
   APID, count and data length are in range, ValueError otherwise *)
Theorem sph_pack_iff h : sph_rest_valid h ->
  (sph_in_range h -> sph_pack h = Ok (sph_layout h)) /\
  (~ sph_in_range h -> sph_pack h = Err EValue).
Proof.
  intros H. split.
  - intros R. apply sph_pack_layout. apply sph_valid_split. split; assumption.
  - apply sph_pack_out_of_range.
Qed.

(* ... hence after ANY history of setter calls (any integer assigned to APID / count / data length,
   in any order, any number of times, interleaved with pack / observe / compare): the current
   values are encoded per the standard when they are in range and refused with ValueError when
   they are not -- an out-of-range value is never encoded, and a later in-range assignment heals
   the object *)
Theorem sph_history_pack_iff ops h : sph_valid h -> Forall sph_op_rest_in_range ops ->
  let h' := fold_left sph_apply ops h in
  (sph_in_range h' -> sph_pack h' = Ok (sph_layout h') /\
                      forall rest, sph_unpack (sph_layout h' ++ rest) = Ok h') /\
  (~ sph_in_range h' -> sph_pack h' = Err EValue) /\
  (forall b, sph_pack h' = Ok b -> sph_in_range h' /\ b = sph_layout h').
Proof.
  intros H F h'. apply sph_valid_split in H. destruct H as [Hr _].
  pose proof (sph_history_rest_valid ops h Hr F) as V. fold h' in V.
  destruct (sph_pack_iff h' V) as [P N].
  split; [|split].
  - intros R. split; [apply P; assumption|].
    intros rest. apply sph_unpack_pack. apply sph_valid_split. split; assumption.
  - exact N.
  - intros b E. pose proof (sph_pack_ok_in_range _ _ E) as R. split; [assumption|].
    rewrite (P R) in E. injection E as <-. reflexivity.
Qed.

(* the refusal leaves the object as it is (pack is an observer), whatever the state *)
Theorem sph_pack_pure h : sph_apply h SoPack = h.
Proof. reflexivity. Qed.

(* SpacePacket.pack() packs the header first: same refusal, whatever the parts are *)
Theorem space_packet_pack_out_of_range h sec ud : ~ sph_in_range h ->
  space_packet_pack h sec ud = Err EValue.
Proof. intros N. unfold space_packet_pack. rewrite sph_pack_out_of_range by assumption. reflexivity. Qed.

(* non-vacuity / the former witnesses: h.apid = 2048, h.seq_count = 16384, h.data_len = 65536 on a
   header of zeros, then healed *)
Definition sph_zero : sph :=
  {| ver := 0; ptype := 0; shf := 0; apid := 0; sflags := 0; scount := 0; dlen := 0 |}.

Example sph_setter_witnesses :
  sph_pack (sph_apply sph_zero (SoApid 2048)) = Err EValue /\
  sph_pack (sph_apply sph_zero (SoCount 16384)) = Err EValue /\
  sph_pack (sph_apply sph_zero (SoDlen 65536)) = Err EValue /\
  sph_pack (fold_left sph_apply [SoApid 2048; SoPack; SoApid 2047] sph_zero) = Ok [7; 255; 0; 0; 0; 0].
Proof. vm_compute. repeat split. Qed.
