(* C13 — stream parser under any fragmentation.  Stage 1: the unrepaired code. *)
From Coq Require Import ZArith List.
From SP Require Import Base.Result Base.Bytes Model.Parser Spec.ParserSpec Proofs.ParserProofs.
Import ListNotations.
Open Scope Z_scope.

Theorem C13_parse_split_refuted :
  exists raws a b p1 q1 p2 q2,
    parse_buf raws a = Ok (p1, q1) /\ parse_buf raws (concat q1 ++ b) = Ok (p2, q2) /\
    parse_buf raws (a ++ b) <> Ok (p1 ++ p2, q2).
Proof. exact parse_split_refuted. Qed.
Print Assumptions C13_parse_split_refuted.
