(* C13 — the space-packet stream parser reassembles losslessly under any fragmentation.
   Statements only; every proof is `exact <lemma>` from Proofs/ParserProofs.v.
   The model follows the repaired code (/repo 77c93e1); for the code before the repair the
   split property is false: Proofs.ParserProofs.parse_split_refuted_before_repair. *)
From Coq Require Import ZArith List.
From SP Require Import Base.Result Base.Bytes Model.SpacePacket Model.Parser Model.ParserFast
  Spec.SpacePacketSpec Spec.ParserSpec Proofs.ParserProofs Proofs.ParserFast.
Import ListNotations.
Open Scope Z_scope.

(* the fuel (length buf + 1) is never exhausted; no slice / struct error on any octet string *)
Theorem C13_scan_fuel_ok : forall raws buf idx tm, wf_bytes buf -> 0 <= idx <= len buf ->
  exists p q, scan (S (length buf)) raws buf [] idx tm = Ok (p, q).
Proof. exact scan_fuel_ok. Qed.
Print Assumptions C13_scan_fuel_ok.

Theorem C13_parse_buf_total : forall raws buf, wf_bytes buf -> exists p q, parse_buf raws buf = Ok (p, q).
Proof. exact parse_buf_total. Qed.
Print Assumptions C13_parse_buf_total.

(* the index/slice/fuel formulation of the code computes the suffix-walk of Spec.ParserSpec *)
Theorem C13_parse_buf_spec : forall raws buf, wf_bytes buf ->
  parse_buf raws buf =
  let '(p, r) := spec_stream raws buf in Ok (p, match r with [] => [] | _ => [r] end).
Proof. exact parse_buf_spec. Qed.
Print Assumptions C13_parse_buf_spec.

(* cutting the stream anywhere: parse a, then parse (what was left ++ b) *)
Theorem C13_parse_split : forall raws a b, wf_bytes a -> wf_bytes b ->
  parse_buf raws (a ++ b) =
  (do (p1, q1) <- parse_buf raws a;
   do (p2, q2) <- parse_buf raws (concat q1 ++ b);
   Ok (p1 ++ p2, q2)).
Proof. exact parse_split. Qed.
Print Assumptions C13_parse_split.

Theorem C13_parse_idem : forall raws buf p q, wf_bytes buf ->
  parse_buf raws buf = Ok (p, q) -> parse_buf raws (concat q) = Ok ([], q).
Proof. exact parse_idem. Qed.
Print Assumptions C13_parse_idem.

(* every history of append(chunk) / parse(ids) calls, from any queue: one more parse of the
   final queue completes the output of a single parse over everything *)
Theorem C13_parse_chunked : forall raws ops q0, Forall wf_bytes q0 -> Forall (op_ok raws) ops ->
  exists obs, run_ops q0 ops = Ok obs /\
    let outs := concat (map fst obs) in
    let qf := last (map snd obs) q0 in
    Forall wf_bytes qf /\
    parse_buf raws (concat q0 ++ appended ops) =
    (do (p, q) <- parse_buf raws (concat qf); Ok (outs ++ p, q)).
Proof. exact parse_chunked. Qed.
Print Assumptions C13_parse_chunked.

Theorem C13_parse_chunked_final : forall raws ops ids, Forall (op_ok raws) ops -> ids_raw ids = raws ->
  exists obs, run_ops [] (ops ++ [Parse ids]) = Ok obs /\
    parse_buf raws (appended ops) = Ok (concat (map fst obs), last (map snd obs) []).
Proof. exact parse_chunked_final. Qed.
Print Assumptions C13_parse_chunked_final.

(* a stream of well-formed packets with registered ids: every packet, in order, nothing left *)
Theorem C13_parse_stream_complete : forall raws ps, Forall (wf_packet raws) ps ->
  parse_buf raws (concat ps) = Ok (ps, []).
Proof. exact parse_stream_complete. Qed.
Print Assumptions C13_parse_stream_complete.

(* ... under every fragmentation and every interleaving of append and parse calls *)
Theorem C13_parse_fragmented_stream_complete : forall raws ops ids ps,
  Forall (op_ok raws) ops -> ids_raw ids = raws -> Forall (wf_packet raws) ps ->
  appended ops = concat ps ->
  exists obs, run_ops [] (ops ++ [Parse ids]) = Ok obs /\
    concat (map fst obs) = ps /\ last (map snd obs) [] = [].
Proof. exact parse_fragmented_stream_complete. Qed.
Print Assumptions C13_parse_fragmented_stream_complete.

(* junk that cannot be a registered id (all windows, including the one straddling into s) *)
Theorem C13_parse_junk_skipped : forall raws j s, wf_bytes (j ++ s) -> junk_ok raws j s ->
  exists p q q', parse_buf raws (j ++ s) = Ok (p, q) /\ parse_buf raws s = Ok (p, q') /\
    ((7 <= length s)%nat -> q = q').
Proof. exact parse_junk_skipped. Qed.
Print Assumptions C13_parse_junk_skipped.

Theorem C13_parse_stream_junk : forall raws segs trail,
  Forall (fun jp => wf_bytes (fst jp) /\ wf_packet raws (snd jp) /\ junk_ok raws (fst jp) (snd jp)) segs ->
  wf_bytes trail -> junk_ok raws trail [] ->
  exists q, parse_buf raws (junk_stream segs trail) = Ok (map snd segs, q).
Proof. exact parse_stream_junk. Qed.
Print Assumptions C13_parse_stream_junk.

(* soundness: whatever the parser returns is a registered packet of exactly its declared length *)
Theorem C13_parse_buf_sound : forall raws buf ps q, wf_bytes buf ->
  parse_buf raws buf = Ok (ps, q) -> Forall (wf_packet raws) ps.
Proof. exact parse_buf_sound. Qed.
Print Assumptions C13_parse_buf_sound.

(* wf_packet is what C01's layout produces: header of the standard ++ (dlen+1) data octets *)
Theorem C13_wf_packet_layout : forall raws h d,
  sph_valid h -> In (sph_word0 h mod 8192) raws -> wf_bytes d -> len d = dlen h + 1 ->
  wf_packet raws (sph_layout h ++ d).
Proof. exact wf_packet_layout. Qed.
Print Assumptions C13_wf_packet_layout.

(* non-vacuity *)
Example C13_wf_packet_inhabited : wf_packet [2051] [8; 3; 192; 0; 0; 0; 85].
Proof. exact wf_packet_example. Qed.
Example C13_junk_ok_inhabited : junk_ok [2051] [0; 255; 8] [8; 3; 192; 0; 0; 0; 85].
Proof. cbn. repeat split. Qed.
Example C13_split_example :
  parse_buf [2051] [8; 3; 192] = Ok ([], [[8; 3; 192]]) /\
  parse_buf [2051] ([8; 3; 192] ++ [0; 0; 0; 85; 8]) = Ok ([[8; 3; 192; 0; 0; 0; 85]], [[8]]).
Proof. split; reflexivity. Qed.

(* the linear-time history formulation the dispatcher uses for large backlogs (operation 902,
   Model/ParserFast.v) computes exactly the history semantics of Model/Parser.v (operation 900),
   for every queue and every operation list *)
Theorem C13_run_ops_fast_eq : forall q ops, run_ops_fast q ops = run_ops q ops.
Proof. exact run_ops_fast_eq. Qed.
Print Assumptions C13_run_ops_fast_eq.
