(* C13 — the space-packet stream parser reassembles losslessly under any fragmentation.
   Statements only; every proof is `exact <lemma>` from Proofs/ParserProofs.v.
   The model follows the repaired code (/repo 77c93e1); for the code before the repair the
   split property is false: Proofs.ParserProofs.parse_split_refuted_before_repair. *)
From Coq Require Import ZArith List.
From SP Require Import Base.Result Base.Bytes Model.SpacePacket Model.Parser Model.ParserFast
  Spec.SpacePacketSpec Spec.ParserSpec Proofs.ParserProofs Proofs.ParserFast Proofs.ParserTail.
Import ListNotations.
Open Scope Z_scope.

(* the fuel (length buf + 1) is never exhausted; no slice / struct error on any octet string *)
Theorem C13_scan_fuel_ok : forall raws buf idx tm, wf_bytes buf -> 0 <= idx <= len buf ->
  exists p q, scan (S (length buf)) raws buf [] idx tm = Ok (p, q).
Proof. exact scan_fuel_ok. Qed.
Print Assumptions C13_scan_fuel_ok.

Theorem C13_parse_buf_total : forall raws buf, wf_bytes buf -> exists p q, parse_buf raws buf = Ok (p, q).
Proof. exact parse_buf_total. Qed.
Print Assumptions C13_parse_buf_total.

(* the index/slice/fuel formulation of the code computes the suffix-walk of Spec.ParserSpec *)
Theorem C13_parse_buf_spec : forall raws buf, wf_bytes buf ->
  parse_buf raws buf =
  let '(p, r) := spec_stream raws buf in Ok (p, match r with [] => [] | _ => [r] end).
Proof. exact parse_buf_spec. Qed.
Print Assumptions C13_parse_buf_spec.

(* cutting the stream anywhere: parse a, then parse (what was left ++ b) *)
Theorem C13_parse_split : forall raws a b, wf_bytes a -> wf_bytes b ->
  parse_buf raws (a ++ b) =
  (do (p1, q1) <- parse_buf raws a;
   do (p2, q2) <- parse_buf raws (concat q1 ++ b);
   Ok (p1 ++ p2, q2)).
Proof. exact parse_split. Qed.
Print Assumptions C13_parse_split.

Theorem C13_parse_idem : forall raws buf p q, wf_bytes buf ->
  parse_buf raws buf = Ok (p, q) -> parse_buf raws (concat q) = Ok ([], q).
Proof. exact parse_idem. Qed.
Print Assumptions C13_parse_idem.

(* every history of append(chunk) / parse(ids) calls, from any queue: one more parse of the
   final queue completes the output of a single parse over everything *)
Theorem C13_parse_chunked : forall raws ops q0, Forall wf_bytes q0 -> Forall (op_ok raws) ops ->
  exists obs, run_ops q0 ops = Ok obs /\
    let outs := concat (map fst obs) in
    let qf := last (map snd obs) q0 in
    Forall wf_bytes qf /\
    parse_buf raws (concat q0 ++ appended ops) =
    (do (p, q) <- parse_buf raws (concat qf); Ok (outs ++ p, q)).
Proof. exact parse_chunked. Qed.
Print Assumptions C13_parse_chunked.

Theorem C13_parse_chunked_final : forall raws ops ids, Forall (op_ok raws) ops -> ids_raw ids = raws ->
  exists obs, run_ops [] (ops ++ [Parse ids]) = Ok obs /\
    parse_buf raws (appended ops) = Ok (concat (map fst obs), last (map snd obs) []).
Proof. exact parse_chunked_final. Qed.
Print Assumptions C13_parse_chunked_final.

(* a stream of well-formed packets with registered ids: every packet, in order, nothing left *)
Theorem C13_parse_stream_complete : forall raws ps, Forall (wf_packet raws) ps ->
  parse_buf raws (concat ps) = Ok (ps, []).
Proof. exact parse_stream_complete. Qed.
Print Assumptions C13_parse_stream_complete.

(* ... under every fragmentation and every interleaving of append and parse calls *)
Theorem C13_parse_fragmented_stream_complete : forall raws ops ids ps,
  Forall (op_ok raws) ops -> ids_raw ids = raws -> Forall (wf_packet raws) ps ->
  appended ops = concat ps ->
  exists obs, run_ops [] (ops ++ [Parse ids]) = Ok obs /\
    concat (map fst obs) = ps /\ last (map snd obs) [] = [].
Proof. exact parse_fragmented_stream_complete. Qed.
Print Assumptions C13_parse_fragmented_stream_complete.

(* junk that cannot be a registered id (all windows, including the one straddling into s) *)
Theorem C13_parse_junk_skipped : forall raws j s, wf_bytes (j ++ s) -> junk_ok raws j s ->
  exists p q q', parse_buf raws (j ++ s) = Ok (p, q) /\ parse_buf raws s = Ok (p, q') /\
    ((7 <= length s)%nat -> q = q').
Proof. exact parse_junk_skipped. Qed.
Print Assumptions C13_parse_junk_skipped.

Theorem C13_parse_stream_junk : forall raws segs trail,
  Forall (fun jp => wf_bytes (fst jp) /\ wf_packet raws (snd jp) /\ junk_ok raws (fst jp) (snd jp)) segs ->
  wf_bytes trail -> junk_ok raws trail [] ->
  exists q, parse_buf raws (junk_stream segs trail) = Ok (map snd segs, q).
Proof. exact parse_stream_junk. Qed.
Print Assumptions C13_parse_stream_junk.

(* ---- the queue keeps exactly the not-yet-complete tail, and a later call finishes it ---- *)

(* complete packets followed by a strict, non-empty prefix of one more packet (cut anywhere: inside
   the 6-octet header, right after it, one octet before the end): every complete packet is
   returned and the queue holds exactly the prefix; parsing the queue with the missing octets
   appended returns the packet whole and empties the queue *)
Theorem C13_parse_tail_kept_then_finished : forall raws ps pk n,
  Forall (wf_packet raws) ps -> wf_packet raws pk -> (0 < n < length pk)%nat ->
  parse_buf raws (concat ps ++ firstn n pk) = Ok (ps, [firstn n pk]) /\
  parse_buf raws (firstn n pk ++ skipn n pk) = Ok ([pk], []).
Proof. exact parse_tail_kept_then_finished. Qed.
Print Assumptions C13_parse_tail_kept_then_finished.

Theorem C13_parse_tail_finished : forall raws pk n ps',
  wf_packet raws pk -> Forall (wf_packet raws) ps' ->
  parse_buf raws (concat [firstn n pk] ++ skipn n pk ++ concat ps') = Ok (pk :: ps', []).
Proof. exact parse_tail_finished. Qed.
Print Assumptions C13_parse_tail_finished.

(* histories from ANY queue content that end with a parse (generalises C13_parse_chunked_final) *)
Theorem C13_parse_chunked_final_from : forall raws ops ids q0,
  Forall wf_bytes q0 -> Forall (op_ok raws) ops -> ids_raw ids = raws ->
  exists obs, run_ops q0 (ops ++ [Parse ids]) = Ok obs /\
    parse_buf raws (concat q0 ++ appended ops) = Ok (concat (map fst obs), last (map snd obs) q0).
Proof. exact parse_chunked_final_from. Qed.
Print Assumptions C13_parse_chunked_final_from.

(* under every fragmentation and interleaving: a stream that ends inside a packet leaves exactly
   the octets of that packet received so far ... *)
Theorem C13_parse_fragmented_tail_kept : forall raws ops ids ps pk n,
  Forall (op_ok raws) ops -> ids_raw ids = raws ->
  Forall (wf_packet raws) ps -> wf_packet raws pk -> (0 < n < length pk)%nat ->
  appended ops = concat ps ++ firstn n pk ->
  exists obs, run_ops [] (ops ++ [Parse ids]) = Ok obs /\
    concat (map fst obs) = ps /\ last (map snd obs) [] = [firstn n pk].
Proof. exact parse_fragmented_tail_kept. Qed.
Print Assumptions C13_parse_fragmented_tail_kept.

(* ... and any later history (again cut anywhere, any interleaving) delivering the missing octets
   and further complete packets returns the packet whole, once, before the others; queue empty *)
Theorem C13_parse_fragmented_tail_finished : forall raws ops ids pk n ps',
  Forall (op_ok raws) ops -> ids_raw ids = raws ->
  wf_packet raws pk -> Forall (wf_packet raws) ps' ->
  appended ops = skipn n pk ++ concat ps' ->
  exists obs, run_ops [firstn n pk] (ops ++ [Parse ids]) = Ok obs /\
    concat (map fst obs) = pk :: ps' /\ last (map snd obs) [firstn n pk] = [].
Proof. exact parse_fragmented_tail_finished. Qed.
Print Assumptions C13_parse_fragmented_tail_finished.

(* ---- junk AND fragmentation together, remainder characterised ----
   junk_rest trail = the last (at most 6) octets of the trailing junk: fewer than 7 octets
   cannot be decided yet (a packet is at least 7 octets long), so they stay in the queue *)
Theorem C13_parse_stream_junk_rest : forall raws segs trail,
  Forall (fun jp => wf_bytes (fst jp) /\ wf_packet raws (snd jp) /\ junk_ok raws (fst jp) (snd jp)) segs ->
  wf_bytes trail -> junk_ok raws trail [] ->
  parse_buf raws (junk_stream segs trail) = Ok (map snd segs, to_queue (junk_rest trail)).
Proof. exact parse_stream_junk_rest. Qed.
Print Assumptions C13_parse_stream_junk_rest.

Theorem C13_parse_fragmented_stream_junk : forall raws ops ids segs trail,
  Forall (op_ok raws) ops -> ids_raw ids = raws ->
  Forall (fun jp => wf_bytes (fst jp) /\ wf_packet raws (snd jp) /\ junk_ok raws (fst jp) (snd jp)) segs ->
  wf_bytes trail -> junk_ok raws trail [] ->
  appended ops = junk_stream segs trail ->
  exists obs, run_ops [] (ops ++ [Parse ids]) = Ok obs /\
    concat (map fst obs) = map snd segs /\
    last (map snd obs) [] = to_queue (junk_rest trail).
Proof. exact parse_fragmented_stream_junk. Qed.
Print Assumptions C13_parse_fragmented_stream_junk.

(* junk, fragmentation and a stream ending inside a packet of which at least 7 octets arrived *)
Theorem C13_parse_fragmented_stream_junk_tail : forall raws ops ids segs j pk n,
  Forall (op_ok raws) ops -> ids_raw ids = raws ->
  Forall (fun jp => wf_bytes (fst jp) /\ wf_packet raws (snd jp) /\ junk_ok raws (fst jp) (snd jp)) segs ->
  wf_bytes j -> wf_packet raws pk -> junk_ok raws j pk -> (7 <= n < length pk)%nat ->
  appended ops = junk_stream segs (j ++ firstn n pk) ->
  exists obs, run_ops [] (ops ++ [Parse ids]) = Ok obs /\
    concat (map fst obs) = map snd segs /\ last (map snd obs) [] = [firstn n pk].
Proof. exact parse_fragmented_stream_junk_tail. Qed.
Print Assumptions C13_parse_fragmented_stream_junk_tail.

(* ... of which fewer than 7 octets arrived: the last 6 octets of (junk ++ prefix) stay, and
   they end with the prefix *)
Theorem C13_parse_fragmented_stream_junk_short_tail : forall raws ops ids segs j pk n,
  Forall (op_ok raws) ops -> ids_raw ids = raws ->
  Forall (fun jp => wf_bytes (fst jp) /\ wf_packet raws (snd jp) /\ junk_ok raws (fst jp) (snd jp)) segs ->
  wf_bytes j -> wf_packet raws pk -> junk_ok raws j pk -> (0 < n <= 6)%nat ->
  appended ops = junk_stream segs (j ++ firstn n pk) ->
  exists obs, run_ops [] (ops ++ [Parse ids]) = Ok obs /\
    concat (map fst obs) = map snd segs /\
    last (map snd obs) [] = [junk_rest (j ++ firstn n pk)] /\
    exists k, skipn k (junk_rest (j ++ firstn n pk)) = firstn n pk.
Proof. exact parse_fragmented_stream_junk_short_tail. Qed.
Print Assumptions C13_parse_fragmented_stream_junk_short_tail.

Example C13_tail_kept_example :
  parse_buf [2051] ([8; 3; 192; 0; 0; 0; 85] ++ [8; 3]) = Ok ([[8; 3; 192; 0; 0; 0; 85]], [[8; 3]]) /\
  parse_buf [2051] ([0; 255] ++ [8; 3; 192; 0; 0; 0; 85] ++ [1; 2; 3; 4; 5; 6; 7; 9]) =
    Ok ([[8; 3; 192; 0; 0; 0; 85]], [[3; 4; 5; 6; 7; 9]]).
Proof. exact tail_kept_example. Qed.

(* soundness: whatever the parser returns is a registered packet of exactly its declared length *)
Theorem C13_parse_buf_sound : forall raws buf ps q, wf_bytes buf ->
  parse_buf raws buf = Ok (ps, q) -> Forall (wf_packet raws) ps.
Proof. exact parse_buf_sound. Qed.
Print Assumptions C13_parse_buf_sound.

(* wf_packet is what C01's layout produces: header of the standard ++ (dlen+1) data octets *)
Theorem C13_wf_packet_layout : forall raws h d,
  sph_valid h -> In (sph_word0 h mod 8192) raws -> wf_bytes d -> len d = dlen h + 1 ->
  wf_packet raws (sph_layout h ++ d).
Proof. exact wf_packet_layout. Qed.
Print Assumptions C13_wf_packet_layout.

(* non-vacuity *)
Example C13_wf_packet_inhabited : wf_packet [2051] [8; 3; 192; 0; 0; 0; 85].
Proof. exact wf_packet_example. Qed.
Example C13_junk_ok_inhabited : junk_ok [2051] [0; 255; 8] [8; 3; 192; 0; 0; 0; 85].
Proof. cbn. repeat split. Qed.
Example C13_split_example :
  parse_buf [2051] [8; 3; 192] = Ok ([], [[8; 3; 192]]) /\
  parse_buf [2051] ([8; 3; 192] ++ [0; 0; 0; 85; 8]) = Ok ([[8; 3; 192; 0; 0; 0; 85]], [[8]]).
Proof. split; reflexivity. Qed.

(* the linear-time history formulation the dispatcher uses for large backlogs (operation 902,
   Model/ParserFast.v) computes exactly the history semantics of Model/Parser.v (operation 900),
   for every queue and every operation list *)
Theorem C13_run_ops_fast_eq : forall q ops, run_ops_fast q ops = run_ops q ops.
Proof. exact run_ops_fast_eq. Qed.
Print Assumptions C13_run_ops_fast_eq.
