(* C17 — USLP primary / truncated headers and transfer frames are encoded exactly per
   CCSDS 732.1-B-2 and round-trip.  Statements only; every proof is `exact <lemma>` from
   Proofs/UslpProofs.v and Proofs/UslpFrameProofs.v. *)
From Coq Require Import ZArith List.
From SP Require Import Base.Result Base.Bytes Model.UslpHeader Model.UslpFrame Spec.UslpSpec
  Proofs.UslpProofs.
Import ListNotations.
Open Scope Z_scope.

(* ---------------- headers ---------------- *)

(* primary header: pack = the 7+n octets of the standard, for every field tuple in range
   and every VCF count length n = 0..7 *)
Theorem C17_hdr_pack_layout : forall h, phdr_valid h -> phdr_pack h = Ok (phdr_layout h).
Proof. exact phdr_pack_layout. Qed.
Print Assumptions C17_hdr_pack_layout.

Example C17_hdr_valid_nonvacuous :
  phdr_valid {| pbase := {| scid := 65535; src_dest := 1; vcid := 63; map_id := 15 |};
                frame_len := 65535; bypass := 1; prot := 1; ocf_flag := 1; vcf_len := 7;
                vcf_count := Some (256 ^ 7 - 1) |} /\
  phdr_layout {| pbase := {| scid := 65535; src_dest := 1; vcid := 63; map_id := 15 |};
                 frame_len := 65535; bypass := 1; prot := 1; ocf_flag := 1; vcf_len := 7;
                 vcf_count := Some (256 ^ 7 - 1) |} =
  [207; 255; 255; 254; 255; 255; 207; 255; 255; 255; 255; 255; 255; 255].
Proof. split; [unfold phdr_valid, base_valid, vcf_valid; cbn; repeat split; discriminate|reflexivity]. Qed.

(* truncated header: its 4 octets *)
Theorem C17_thdr_pack_layout : forall b, base_valid b -> thdr_pack b = Ok (thdr_layout b).
Proof. exact thdr_pack_layout. Qed.
Print Assumptions C17_thdr_pack_layout.

(* decode (encode h ++ anything) = h; the count of a zero-length count field reads back as 0 *)
Theorem C17_hdr_unpack_pack : forall h rest, phdr_valid h ->
  phdr_unpack (phdr_layout h ++ rest) USLP_VERSION_NUMBER = Ok (phdr_norm h).
Proof. exact phdr_unpack_pack. Qed.
Print Assumptions C17_hdr_unpack_pack.

Theorem C17_thdr_unpack_pack : forall b rest, base_valid b ->
  thdr_unpack (thdr_layout b ++ rest) USLP_VERSION_NUMBER = Ok b.
Proof. exact thdr_unpack_pack. Qed.
Print Assumptions C17_thdr_unpack_pack.

(* any octet string that decodes: the fields are in range and encode back to exactly the
   octets read (the two reserved spare bits of octet 6, which no field carries, cleared) *)
Theorem C17_hdr_pack_unpack : forall o0 o1 o2 o3 o4 o5 o6 tail h,
  wf_bytes (o0 :: o1 :: o2 :: o3 :: o4 :: o5 :: o6 :: tail) ->
  phdr_unpack (o0 :: o1 :: o2 :: o3 :: o4 :: o5 :: o6 :: tail) USLP_VERSION_NUMBER = Ok h ->
  phdr_valid h /\
  phdr_pack h = Ok (o0 :: o1 :: o2 :: o3 :: o4 :: o5 :: (o6 - ((o6 / 16) mod 4) * 16) ::
                    firstn (Z.to_nat (vcf_len h)) tail).
Proof. exact phdr_pack_unpack. Qed.
Print Assumptions C17_hdr_pack_unpack.

Theorem C17_thdr_pack_unpack : forall d, wf_bytes d -> (4 <= length d)%nat ->
  match thdr_unpack d USLP_VERSION_NUMBER with
  | Ok b => base_valid b /\ thdr_pack b = Ok (firstn 4 d)
  | Err e => e = EVersionMissmatch \/ e = ETypeMissmatch
  end.
Proof. exact thdr_pack_unpack. Qed.
Print Assumptions C17_thdr_pack_unpack.

(* out-of-range identifiers (any integer, also negative) are refused with ValueError, and
   nothing else packs *)
Theorem C17_ids_refused : forall b fl by_ pr oc n c, ~ ids_in_range b ->
  thdr_pack b = Err EValue /\
  phdr_pack {| pbase := b; frame_len := fl; bypass := by_; prot := pr; ocf_flag := oc;
               vcf_len := n; vcf_count := c |} = Err EValue.
Proof. exact uslp_ids_refused. Qed.
Print Assumptions C17_ids_refused.
Example C17_ids_refused_nonvacuous :
  ~ ids_in_range {| scid := -1; src_dest := 0; vcid := 0; map_id := 0 |}.
Proof. unfold ids_in_range; cbn; intros [[H _] _]; apply H; reflexivity. Qed.

Theorem C17_pack_ok_ids : forall b e p, pack_common b e = Ok p -> ids_in_range b.
Proof. exact uslp_pack_ok_ids. Qed.
Print Assumptions C17_pack_ok_ids.

(* len() = number of packed octets *)
Theorem C17_hdr_len : forall h, phdr_valid h ->
  exists p, phdr_pack h = Ok p /\ len p = phdr_len h.
Proof. exact phdr_len_is_pack_length. Qed.
Print Assumptions C17_hdr_len.
Theorem C17_thdr_len : forall b, base_valid b ->
  exists p, thdr_pack b = Ok p /\ len p = thdr_len b.
Proof. exact thdr_len_is_pack_length. Qed.
Print Assumptions C17_thdr_len.

Theorem C17_determine_header_type : forall o0 o1 o2 o3 rest, 0 <= o3 < 256 ->
  determine_header_type (o0 :: o1 :: o2 :: o3 :: rest) = Ok (o3 mod 2).
Proof. exact determine_header_type_spec. Qed.
Print Assumptions C17_determine_header_type.
