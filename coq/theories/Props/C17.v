(* C17 — USLP primary / truncated headers and transfer frames are encoded exactly per
   CCSDS 732.1-B-2 and round-trip.  Statements only; every proof is `exact <lemma>` from
   Proofs/UslpProofs.v and Proofs/UslpFrameProofs.v. *)
From Coq Require Import ZArith List.
From SP Require Import Base.Result Base.Bytes Model.UslpHeader Model.UslpFrame Spec.UslpSpec
  Proofs.UslpProofs Proofs.UslpFrameProofs Proofs.UslpMismatch.
Import ListNotations.
Open Scope Z_scope.

(* ---------------- headers ---------------- *)

(* primary header: pack = the 7+n octets of the standard, for every field tuple in range
   and every VCF count length n = 0..7 *)
Theorem C17_hdr_pack_layout : forall h, phdr_valid h -> phdr_pack h = Ok (phdr_layout h).
Proof. exact phdr_pack_layout. Qed.
Print Assumptions C17_hdr_pack_layout.

Example C17_hdr_valid_nonvacuous :
  phdr_valid {| pbase := {| scid := 65535; src_dest := 1; vcid := 63; map_id := 15 |};
                frame_len := 65535; bypass := 1; prot := 1; ocf_flag := 1; vcf_len := 7;
                vcf_count := Some (256 ^ 7 - 1) |} /\
  phdr_layout {| pbase := {| scid := 65535; src_dest := 1; vcid := 63; map_id := 15 |};
                 frame_len := 65535; bypass := 1; prot := 1; ocf_flag := 1; vcf_len := 7;
                 vcf_count := Some (256 ^ 7 - 1) |} =
  [207; 255; 255; 254; 255; 255; 207; 255; 255; 255; 255; 255; 255; 255].
Proof. split; [unfold phdr_valid, base_valid, vcf_valid; cbn; repeat split; discriminate|reflexivity]. Qed.

(* truncated header: its 4 octets *)
Theorem C17_thdr_pack_layout : forall b, base_valid b -> thdr_pack b = Ok (thdr_layout b).
Proof. exact thdr_pack_layout. Qed.
Print Assumptions C17_thdr_pack_layout.

(* decode (encode h ++ anything) = h; the count of a zero-length count field reads back as 0 *)
Theorem C17_hdr_unpack_pack : forall h rest, phdr_valid h ->
  phdr_unpack (phdr_layout h ++ rest) USLP_VERSION_NUMBER = Ok (phdr_norm h).
Proof. exact phdr_unpack_pack. Qed.
Print Assumptions C17_hdr_unpack_pack.

Theorem C17_thdr_unpack_pack : forall b rest, base_valid b ->
  thdr_unpack (thdr_layout b ++ rest) USLP_VERSION_NUMBER = Ok b.
Proof. exact thdr_unpack_pack. Qed.
Print Assumptions C17_thdr_unpack_pack.

(* any octet string that decodes: the fields are in range and encode back to exactly the
   octets read (the two reserved spare bits of octet 6, which no field carries, cleared) *)
Theorem C17_hdr_pack_unpack : forall o0 o1 o2 o3 o4 o5 o6 tail h,
  wf_bytes (o0 :: o1 :: o2 :: o3 :: o4 :: o5 :: o6 :: tail) ->
  phdr_unpack (o0 :: o1 :: o2 :: o3 :: o4 :: o5 :: o6 :: tail) USLP_VERSION_NUMBER = Ok h ->
  phdr_valid h /\
  phdr_pack h = Ok (o0 :: o1 :: o2 :: o3 :: o4 :: o5 :: (o6 - ((o6 / 16) mod 4) * 16) ::
                    firstn (Z.to_nat (vcf_len h)) tail).
Proof. exact phdr_pack_unpack. Qed.
Print Assumptions C17_hdr_pack_unpack.

Theorem C17_thdr_pack_unpack : forall d, wf_bytes d -> (4 <= length d)%nat ->
  match thdr_unpack d USLP_VERSION_NUMBER with
  | Ok b => base_valid b /\ thdr_pack b = Ok (firstn 4 d)
  | Err e => e = EVersionMissmatch \/ e = ETypeMissmatch
  end.
Proof. exact thdr_pack_unpack. Qed.
Print Assumptions C17_thdr_pack_unpack.

(* out-of-range identifiers (any integer, also negative) are refused with ValueError, and
   nothing else packs *)
Theorem C17_ids_refused : forall b fl by_ pr oc n c, ~ ids_in_range b ->
  thdr_pack b = Err EValue /\
  phdr_pack {| pbase := b; frame_len := fl; bypass := by_; prot := pr; ocf_flag := oc;
               vcf_len := n; vcf_count := c |} = Err EValue.
Proof. exact uslp_ids_refused. Qed.
Print Assumptions C17_ids_refused.
Example C17_ids_refused_nonvacuous :
  ~ ids_in_range {| scid := -1; src_dest := 0; vcid := 0; map_id := 0 |}.
Proof. unfold ids_in_range; cbn; intros [[H _] _]; apply H; reflexivity. Qed.

Theorem C17_pack_ok_ids : forall b e p, pack_common b e = Ok p -> ids_in_range b.
Proof. exact uslp_pack_ok_ids. Qed.
Print Assumptions C17_pack_ok_ids.

(* len() = number of packed octets *)
Theorem C17_hdr_len : forall h, phdr_valid h ->
  exists p, phdr_pack h = Ok p /\ len p = phdr_len h.
Proof. exact phdr_len_is_pack_length. Qed.
Print Assumptions C17_hdr_len.
Theorem C17_thdr_len : forall b, base_valid b ->
  exists p, thdr_pack b = Ok p /\ len p = thdr_len b.
Proof. exact thdr_len_is_pack_length. Qed.
Print Assumptions C17_thdr_len.

(* the sizes themselves: 7 + n octets (n = VCF count length 0..7) and 4 octets *)
Theorem C17_hdr_layout_len : forall h, 0 <= vcf_len h <= 7 -> len (phdr_layout h) = 7 + vcf_len h.
Proof. exact phdr_layout_len_explicit. Qed.
Print Assumptions C17_hdr_layout_len.
Theorem C17_thdr_layout_len : forall b, len (thdr_layout b) = 4.
Proof. exact thdr_layout_len_explicit. Qed.
Print Assumptions C17_thdr_layout_len.

Theorem C17_determine_header_type : forall o0 o1 o2 o3 rest, 0 <= o3 < 256 ->
  determine_header_type (o0 :: o1 :: o2 :: o3 :: rest) = Ok (o3 mod 2).
Proof. exact determine_header_type_spec. Qed.
Print Assumptions C17_determine_header_type.

(* ---------------- transfer frame data field ---------------- *)

(* construction rule * 32 + protocol id, then the 16-bit pointer exactly when the standard has
   one (rules 000/001/010 in a non-truncated frame), then the data zone *)
Theorem C17_tfdf_pack_layout : forall t tr ft, tfdf_consistent t tr ->
  ft = None \/ ft = Some (ftype_of_rule (rules t)) ->
  tfdf_pack t tr ft = Ok (tfdf_layout (rules t) (ident t) (fhp t) (tfdz t)).
Proof. exact tfdf_pack_layout. Qed.
Print Assumptions C17_tfdf_pack_layout.

Theorem C17_tfdf_pointer_missing : forall r i dz sz tr ft, 0 <= r <= 7 -> 0 <= i <= 31 ->
  ft = None \/ ft = Some (ftype_of_rule r) -> spec_has_pointer r tr = true ->
  tfdf_pack {| rules := r; ident := i; fhp := None; tfdz := dz; tsize := sz |} tr ft = Err EFhpMissing.
Proof. exact tfdf_pack_pointer_missing. Qed.
Print Assumptions C17_tfdf_pointer_missing.

Theorem C17_tfdf_new : forall r i dz f,
  (tfdf_header_len f + len dz <= 65529 - tfdf_header_len f ->
   tfdf_new r i dz f = Ok {| rules := r; ident := i; fhp := f; tfdz := dz;
                             tsize := tfdf_header_len f + len dz |}) /\
  (tfdf_header_len f + len dz > 65529 - tfdf_header_len f -> tfdf_new r i dz f = Err EValue).
Proof. exact tfdf_new_spec. Qed.
Print Assumptions C17_tfdf_new.

(* ---------------- transfer frame ---------------- *)

(* header ++ insert zone ++ data field ++ OCF ++ FECF, for every combination of options *)
Theorem C17_frame_pack_layout : forall f ft, frame_consistent f ->
  ft = None \/ ft = Some (ftype_of_rule (rules (ftfdf f))) ->
  frame_pack f (hdr_truncated (hdr f)) ft = Ok (frame_layout (hdr_layout (hdr f)) f).
Proof. exact frame_pack_layout. Qed.
Print Assumptions C17_frame_pack_layout.

Definition C17_example_frame : frame :=
  {| hdr := HPrim {| pbase := {| scid := 16; src_dest := 0; vcid := 55; map_id := 3 |};
                     frame_len := 23; bypass := 0; prot := 0; ocf_flag := 1; vcf_len := 0;
                     vcf_count := None |};
     ftfdf := {| rules := 0; ident := 0; fhp := Some 0; tfdz := [1; 2; 3; 4]; tsize := 7 |};
     izone := Some [0; 0; 0; 0]; ocf := Some [1; 2; 3; 4]; fecf := Some [3; 4] |}.
Example C17_frame_consistent_nonvacuous :
  frame_consistent C17_example_frame /\ frame_len_set C17_example_frame /\
  frame_len_of C17_example_frame = 24.
Proof.
  unfold frame_consistent, frame_len_set, tfdf_consistent, phdr_valid, base_valid, vcf_valid; cbn.
  repeat split; try discriminate; try reflexivity.
Qed.

(* len() = size of pack() *)
Theorem C17_frame_len : forall f ft, frame_consistent f ->
  ft = None \/ ft = Some (ftype_of_rule (rules (ftfdf f))) ->
  exists raw, frame_pack f (hdr_truncated (hdr f)) ft = Ok raw /\ len raw = frame_len_of f.
Proof. exact frame_len_is_pack_len. Qed.
Print Assumptions C17_frame_len.

(* set_frame_len_in_header stores len() - 1 and changes nothing else; afterwards octets 4-5
   of the packed frame hold the packed size - 1 *)
Theorem C17_set_frame_len : forall f,
  frame_len_of (set_frame_len_in_header f) = frame_len_of f /\
  frame_len_set (set_frame_len_in_header f) /\
  ftfdf (set_frame_len_in_header f) = ftfdf f /\ izone (set_frame_len_in_header f) = izone f /\
  ocf (set_frame_len_in_header f) = ocf f /\ fecf (set_frame_len_in_header f) = fecf f /\
  hdr_truncated (hdr (set_frame_len_in_header f)) = hdr_truncated (hdr f).
Proof. exact set_frame_len_spec. Qed.
Print Assumptions C17_set_frame_len.
Theorem C17_set_frame_len_consistent : forall f, frame_consistent f -> frame_len_of f <= 65536 ->
  frame_consistent (set_frame_len_in_header f).
Proof. exact set_frame_len_consistent. Qed.
Print Assumptions C17_set_frame_len_consistent.
Theorem C17_frame_len_field : forall f ft p raw, hdr f = HPrim p -> frame_consistent f ->
  frame_len_set f -> ft = None \/ ft = Some (ftype_of_rule (rules (ftfdf f))) ->
  frame_pack f false ft = Ok raw ->
  len raw = frame_len_of f /\ slice raw 4 6 = be_encode 2 (len raw - 1).
Proof. exact frame_len_field. Qed.
Print Assumptions C17_frame_len_field.

(* unpack under the matching managed parameters returns the same header, zones and fields:
   every combination of header kind (primary with VCF length 0..7 / truncated), insert zone,
   OCF, FECF, construction rule, fixed / variable; also with octets appended *)
Theorem C17_frame_unpack_pack : forall f p rest, frame_consistent f -> frame_len_set f ->
  props_match f p ->
  frame_unpack (frame_layout (hdr_layout (hdr f)) f ++ rest) (ftype_of_rule (rules (ftfdf f))) p =
  Ok (frame_norm f).
Proof. exact frame_unpack_pack. Qed.
Print Assumptions C17_frame_unpack_pack.
Example C17_props_match_nonvacuous :
  props_match C17_example_frame
    {| p_fixed := true; p_len := 24; iz_present := true; iz_size := 4;
       fecf_present := true; fecf_size := 2 |}.
Proof. unfold props_match; cbn. repeat split; reflexivity. Qed.

(* mismatching managed parameters raise the USLP errors *)
Theorem C17_mismatch_too_short : forall raw ft p, len raw < 4 ->
  frame_unpack raw ft p = Err EInvalidLen.
Proof. exact frame_unpack_too_short. Qed.
Print Assumptions C17_mismatch_too_short.
Theorem C17_mismatch_fixed_wrong_class : forall raw p, 4 <= len raw -> p_fixed p = false ->
  frame_unpack raw FtFixed p = Err EValue.
Proof. exact frame_unpack_fixed_wrong_class. Qed.
Print Assumptions C17_mismatch_fixed_wrong_class.
Theorem C17_mismatch_fixed_short : forall raw p, 4 <= len raw -> p_fixed p = true ->
  len raw < p_len p -> frame_unpack raw FtFixed p = Err EInvalidLen.
Proof. exact frame_unpack_fixed_short. Qed.
Print Assumptions C17_mismatch_fixed_short.
Theorem C17_mismatch_fixed_len : forall ph x p, phdr_valid ph -> p_fixed p = true ->
  p_len p <= len (phdr_layout ph ++ x) -> frame_len ph + 1 <> p_len p ->
  frame_unpack (phdr_layout ph ++ x) FtFixed p = Err EInvalidLen.
Proof. exact frame_unpack_fixed_len_mismatch. Qed.
Print Assumptions C17_mismatch_fixed_len.
Theorem C17_mismatch_truncated_fixed : forall b x p, base_valid b -> p_fixed p = true ->
  p_len p <= len (thdr_layout b ++ x) ->
  frame_unpack (thdr_layout b ++ x) FtFixed p = Err ETruncatedNotAllowed.
Proof. exact frame_unpack_truncated_fixed. Qed.
Print Assumptions C17_mismatch_truncated_fixed.
Theorem C17_mismatch_truncated_fixed_props : forall b x p, base_valid b -> p_fixed p = true ->
  frame_unpack (thdr_layout b ++ x) FtVariable p = Err EValue.
Proof. exact frame_unpack_truncated_fixed_props. Qed.
Print Assumptions C17_mismatch_truncated_fixed_props.
Theorem C17_mismatch_rule : forall r i fh dz tail tr e ft, 0 <= r <= 7 -> 0 <= i <= 31 ->
  ft <> ftype_of_rule r ->
  tfdf_unpack (tfdf_layout r i fh dz ++ tail) tr e (Some ft) = Err EInvalidConstrRules.
Proof. exact tfdf_unpack_rule_mismatch. Qed.
Print Assumptions C17_mismatch_rule.
Theorem C17_mismatch_pointer_cut : forall raw e r, 1 <= len raw -> py_get raw 0 = Ok r ->
  cnstr_rules_for_fp (Z.land (Z.shiftr r 5) 7) = true -> len raw < 3 \/ e < 3 ->
  tfdf_unpack raw false e (Some FtFixed) = Err EInvalidLen.
Proof. exact tfdf_unpack_pointer_cut. Qed.
Print Assumptions C17_mismatch_pointer_cut.

(* ---- mismatching insert-zone / FECF parameters, at frame level ----
   For ANY octet string, either frame type and any managed parameters with non-negative sizes:
   a returned frame has its insert zone and FECF present exactly as the managed parameters say
   and of exactly the managed sizes. *)
Theorem C17_unpack_zone_sizes : forall raw ft p g,
  frame_unpack raw ft p = Ok g ->
  (iz_present p = true -> 0 <= iz_size p) -> (fecf_present p = true -> 0 <= fecf_size p) ->
  is_some (izone g) = iz_present p /\ (iz_present p = true -> opt_len (izone g) = iz_size p) /\
  is_some (fecf g) = fecf_present p /\ (fecf_present p = true -> opt_len (fecf g) = fecf_size p).
Proof. exact frame_unpack_zone_sizes. Qed.
Print Assumptions C17_unpack_zone_sizes.

(* hence: wrong presence or wrong size of the insert zone or the FECF never reproduces the frame
   (unpack raises, or returns a frame with other zones), for every frame type asked for, every
   other setting of p' and any octets behind the frame.  Negative sizes (not refused by the
   managed-parameter constructors; Python's negative slice bounds count from the end) excluded. *)
Theorem C17_mismatch_zones : forall f p p' ft rest,
  props_match f p ->
  (iz_present p' = true -> 0 <= iz_size p') -> (fecf_present p' = true -> 0 <= fecf_size p') ->
  (iz_present p' <> iz_present p \/ fecf_present p' <> fecf_present p \/
   (iz_present p' = true /\ iz_present p = true /\ iz_size p' <> iz_size p) \/
   (fecf_present p' = true /\ fecf_present p = true /\ fecf_size p' <> fecf_size p)) ->
  frame_unpack (frame_layout (hdr_layout (hdr f)) f ++ rest) ft p' <> Ok (frame_norm f).
Proof. exact frame_unpack_props_mismatch. Qed.
Print Assumptions C17_mismatch_zones.

(* the non-negativity hypotheses cannot be dropped (the audit's statement without them is false):
   insert-zone size (s - L) and FECF size (F + L), L the buffer length, reproduce the frame
   exactly through Python's negative slice bounds.  Same on the implementation (replayed):
   frame c00106e6000e000909e00102030506, VarFrameProperties(insert_zone_len=-13, fecf_len=17)
   returns insert zone 0909, data zone 010203, FECF 0506. *)
Theorem C17_mismatch_zones_negative_refuted :
  exists f p p', frame_consistent f /\ frame_len_set f /\ props_match f p /\
    iz_present p' = true /\ iz_present p = true /\ iz_size p' <> iz_size p /\
    fecf_present p' = true /\ fecf_present p = true /\ fecf_size p' <> fecf_size p /\
    frame_unpack (frame_layout (hdr_layout (hdr f)) f) (ftype_of_rule (rules (ftfdf f))) p' = Ok (frame_norm f).
Proof. exact frame_unpack_zones_mismatch_negative_refuted. Qed.
Print Assumptions C17_mismatch_zones_negative_refuted.

(* when unpack does fail on the octets of a packed frame under parameters of the right class, the
   error is UslpInvalidRawPacketOrFrameLen or UslpInvalidConstructionRules, nothing else *)
Theorem C17_mismatch_error_class : forall f p' rest x,
  frame_consistent f ->
  p_fixed p' = (match ftype_of_rule (rules (ftfdf f)) with FtFixed => true | FtVariable => false end) ->
  frame_unpack (frame_layout (hdr_layout (hdr f)) f ++ rest) (ftype_of_rule (rules (ftfdf f))) p' = Err x ->
  x = EInvalidLen \/ x = EInvalidConstrRules.
Proof. exact frame_unpack_mismatch_error_class. Qed.
Print Assumptions C17_mismatch_error_class.

(* "mismatching parameters RAISE the USLP errors" cannot hold for every mismatch: when the wrong
   sizes still add up (insert zone one octet longer, FECF one octet shorter) no length check can
   notice, the data field is read one octet late and a DIFFERENT frame is returned without any
   error.  Same behaviour on the implementation (replayed): insert zone 00000000e0, data zone
   02030405060703, FECF 04 instead of 00000000 / e0020304050607 / 0304. *)
Theorem C17_mismatch_zones_raise_refuted :
  frame_consistent shifted_zone_frame /\ frame_len_set shifted_zone_frame /\
  props_match shifted_zone_frame (shifted_zone_props 4 2) /\
  exists g, frame_unpack (frame_layout (hdr_layout (hdr shifted_zone_frame)) shifted_zone_frame)
                         FtVariable (shifted_zone_props 5 1) = Ok g /\
            g <> frame_norm shifted_zone_frame /\
            izone g = Some [0; 0; 0; 0; 224] /\ fecf g = Some [4] /\
            tfdz (ftfdf g) = [2; 3; 4; 5; 6; 7; 3].
Proof. exact frame_unpack_zones_mismatch_may_decode. Qed.
Print Assumptions C17_mismatch_zones_raise_refuted.

(* ---- construction rule / frame type mismatch at frame level: a non-truncated frame unpacked
   as the other frame type than its construction rule's, everything else matching
   (props_match_as: class and fixed length as FIXED demands, insert zone and FECF as packed) ---- *)
Theorem C17_mismatch_rule_frame : forall f p ft rest, frame_consistent f -> frame_len_set f ->
  hdr_truncated (hdr f) = false -> ft <> ftype_of_rule (rules (ftfdf f)) -> props_match_as f ft p ->
  frame_unpack (frame_layout (hdr_layout (hdr f)) f ++ rest) ft p = Err EInvalidConstrRules.
Proof. exact frame_unpack_rule_mismatch. Qed.
Print Assumptions C17_mismatch_rule_frame.
Example C17_mismatch_rule_frame_nonvacuous :
  props_match_as shifted_zone_frame FtFixed
    {| p_fixed := true; p_len := 21; iz_present := true; iz_size := 4;
       fecf_present := true; fecf_size := 2 |} /\
  FtFixed <> ftype_of_rule (rules (ftfdf shifted_zone_frame)).
Proof. exact rule_mismatch_nonvacuous. Qed.

(* Note on C17_mismatch_fixed_wrong_class and C17_mismatch_truncated_fixed_props above: the
   implementation raises a plain ValueError there (`if not isinstance(frame_properties, ...):
   raise ValueError`), not one of the seven USLP exception classes; the model is faithful
   (replayed on the code). *)

(* recorded finding (known_findings.d/uslp.json): with a pointer supplied for a rule that has
   none, len() is not the packed size; C17_frame_len above therefore carries the hypothesis
   "pointer supplied exactly when the standard has one" (tfdf_consistent) *)
Theorem C17_frame_len_refuted :
  tfdf_new VpNoSegmentation 0 [97; 98; 99; 100] (Some 5) = Ok (ftfdf unused_pointer_frame) /\
  exists raw, frame_pack unused_pointer_frame false None = Ok raw /\
              len raw = 12 /\ frame_len_of unused_pointer_frame = 14.
Proof. exact frame_len_unused_pointer_refuted. Qed.
Print Assumptions C17_frame_len_refuted.

(* every strict prefix of a packed frame is refused with UslpInvalidRawPacketOrFrameLen
   (before the repair 14f7d91 variable-length frames accepted prefixes that cut the OCF/FECF) *)
Theorem C17_frame_prefix_rejected : forall f p n, frame_consistent f -> frame_len_set f ->
  props_match f p -> (n < length (frame_layout (hdr_layout (hdr f)) f))%nat ->
  frame_unpack (firstn n (frame_layout (hdr_layout (hdr f)) f)) (ftype_of_rule (rules (ftfdf f))) p =
  Err EInvalidLen.
Proof. exact frame_prefix_rejected. Qed.
Print Assumptions C17_frame_prefix_rejected.
