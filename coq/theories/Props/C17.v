(* C17 — USLP headers and transfer frames.  Statements only. *)
From Coq Require Import ZArith List.
From SP Require Import Base.Result Base.Bytes Model.UslpHeader Model.UslpFrame Spec.UslpSpec Proofs.UslpProofs.
Import ListNotations.
Open Scope Z_scope.

Theorem C17_thdr_len : forall b, thdr_len b = 4.
Proof. exact thdr_len_4. Qed.
Print Assumptions C17_thdr_len.
