(* C05 — CFDP fixed PDU header is encoded exactly per CCSDS 727.0-B-5 and round-trips.
   Statements only; every proof is `exact <lemma>` from Proofs/PduHeaderProofs.v.
   hdr_valid h (Spec/PduHeaderSpec.v): the seven flag bits are 0/1, 0 <= data-field length
   <= 65535, entity-ID width = destination width and sequence-number width in {1,2,4,8},
   every ID / sequence value below 256^width. *)
From Coq Require Import ZArith List Bool.
From SP Require Import Base.Result Base.Bytes Base.Crc16 Model.PduHeader Spec.PduHeaderSpec Proofs.PduHeaderProofs.
Import ListNotations.
Open Scope Z_scope.

(* constructor: accepted exactly when length <= 65535 and both entity IDs have one width;
   otherwise ValueError (for every integer, every pair of byte fields) *)
Theorem C05_new_accepts_iff : forall t m n c,
  (n <= 65535 /\ ubf_len (cf_src c) = ubf_len (cf_dst c) ->
     hdr_new t m n c = Ok {| h_type := t; h_meta := m; h_dlen := n; h_conf := c |}) /\
  (~ (n <= 65535 /\ ubf_len (cf_src c) = ubf_len (cf_dst c)) -> hdr_new t m n c = Err EValue).
Proof. exact hdr_new_spec. Qed.
Print Assumptions C05_new_accepts_iff.

(* the setters refuse the same way *)
Theorem C05_set_dlen : forall h n,
  hdr_set_dlen h n =
  if n <=? 65535 then Ok {| h_type := h_type h; h_meta := h_meta h; h_dlen := n; h_conf := h_conf h |}
  else Err EValue.
Proof. exact hdr_set_dlen_spec. Qed.
Print Assumptions C05_set_dlen.
Theorem C05_set_entity_ids : forall h s d,
  hdr_set_entity_ids h s d =
  if ubf_len s =? ubf_len d
  then Ok (hdr_with_conf h (conf_set_dst (conf_set_src (h_conf h) s) d)) else Err EValue.
Proof. exact hdr_set_entity_ids_spec. Qed.
Print Assumptions C05_set_entity_ids.

(* UnsignedByteField(v, w) exists exactly for w in {0,1,2,4,8} and 0 <= v < 256^w *)
Theorem C05_byte_field_accepts_iff : forall v w,
  ubf_new v w =
  if byte_len_allowed w && (0 <=? v) && (v <? 256 ^ w)
  then Ok {| ubf_val := v; ubf_len := w |} else Err EValue.
Proof. exact ubf_new_spec. Qed.
Print Assumptions C05_byte_field_accepts_iff.

(* pack = the octets of the standard, for all flags, widths, IDs, lengths *)
Theorem C05_pack_layout : forall h, hdr_valid h -> hdr_pack h = Ok (hdr_layout h).
Proof. exact hdr_pack_layout. Qed.
Print Assumptions C05_pack_layout.

(* its length is 4 + 2*idwidth + seqwidth = header_len; packet_len adds the data-field length *)
Theorem C05_layout_length : forall h, hdr_valid h ->
  len (hdr_layout h) = hdr_header_len h /\ len (hdr_layout h) = 4 + 2 * hdr_idw h + hdr_seqw h.
Proof. exact hdr_layout_length. Qed.
Print Assumptions C05_layout_length.
Theorem C05_header_len : forall h,
  hdr_header_len h = 4 + 2 * hdr_idw h + hdr_seqw h /\
  hdr_packet_len h = h_dlen h + (4 + 2 * hdr_idw h + hdr_seqw h).
Proof. exact hdr_header_len_spec. Qed.
Print Assumptions C05_header_len.
Theorem C05_conf_header_len : forall c, ubf_len (cf_src c) = ubf_len (cf_dst c) ->
  forall t m n, conf_header_len c = hdr_header_len {| h_type := t; h_meta := m; h_dlen := n; h_conf := c |}.
Proof. exact conf_header_len_spec. Qed.
Print Assumptions C05_conf_header_len.

(* decode (encode h ++ anything) = h : every value and width back *)
Theorem C05_unpack_pack : forall h rest, hdr_valid h -> wf_bytes rest ->
  hdr_unpack (hdr_layout h ++ rest) = Ok h.
Proof. exact hdr_unpack_pack. Qed.
Print Assumptions C05_unpack_pack.

(* PduHeader.unpack is, on EVERY octet string, the decoder of the standard: which strings are
   refused, with which documented error, and which header the others denote *)
Theorem C05_unpack_spec : forall d, wf_bytes d -> hdr_unpack d = hdr_decode_spec d.
Proof. exact hdr_unpack_spec. Qed.
Print Assumptions C05_unpack_spec.

(* whatever is accepted has valid fields and re-encodes to exactly the octets consumed *)
Theorem C05_pack_unpack : forall d h, wf_bytes d -> hdr_unpack d = Ok h ->
  hdr_valid h /\ hdr_header_len h <= len d /\
  hdr_layout h = firstn (Z.to_nat (hdr_header_len h)) d /\
  hdr_pack h = Ok (firstn (Z.to_nat (hdr_header_len h)) d).
Proof. exact hdr_pack_unpack. Qed.
Print Assumptions C05_pack_unpack.

(* version 001 + supported width codes + enough octets => accepted *)
Theorem C05_unpack_accepts : forall d, wf_bytes d ->
  hdr_decode_spec d = hdr_unpack d /\
  (forall b0 b1 b2 b3 tl, d = b0 :: b1 :: b2 :: b3 :: tl ->
     b0 / 32 = 1 -> width_ok ((b3 / 16) mod 8 + 1) -> width_ok (b3 mod 8 + 1) ->
     4 + 2 * ((b3 / 16) mod 8 + 1) + (b3 mod 8 + 1) <= len d ->
     exists h, hdr_unpack d = Ok h).
Proof. exact hdr_unpack_accepts. Qed.
Print Assumptions C05_unpack_accepts.

(* refusals: short -> BytesTooShortError; version <> 001 -> UnsupportedCfdpVersion;
   width code not in {0,1,3,7} -> ValueError; variable part incomplete -> BytesTooShortError *)
Theorem C05_refuses :
  (forall d, len d < 4 -> hdr_unpack d = Err ETooShort) /\
  (forall b0 b1 b2 b3 tl, wf_bytes (b0 :: b1 :: b2 :: b3 :: tl) -> b0 / 32 <> 1 ->
     hdr_unpack (b0 :: b1 :: b2 :: b3 :: tl) = Err EVersion) /\
  (forall b0 b1 b2 b3 tl, wf_bytes (b0 :: b1 :: b2 :: b3 :: tl) -> b0 / 32 = 1 ->
     ~ (width_ok ((b3 / 16) mod 8 + 1) /\ width_ok (b3 mod 8 + 1)) ->
     hdr_unpack (b0 :: b1 :: b2 :: b3 :: tl) = Err EValue) /\
  (forall b0 b1 b2 b3 tl, wf_bytes (b0 :: b1 :: b2 :: b3 :: tl) -> b0 / 32 = 1 ->
     width_ok ((b3 / 16) mod 8 + 1) -> width_ok (b3 mod 8 + 1) ->
     len tl < 2 * ((b3 / 16) mod 8 + 1) + (b3 mod 8 + 1) ->
     hdr_unpack (b0 :: b1 :: b2 :: b3 :: tl) = Err ETooShort).
Proof. exact hdr_refuses. Qed.
Print Assumptions C05_refuses.

(* header_len_from_raw on a packed header (whatever follows) and on anything the decoder accepts *)
Theorem C05_header_len_from_raw_pack : forall h rest, hdr_valid h ->
  header_len_from_raw (hdr_layout h ++ rest) = Ok (hdr_header_len h).
Proof. exact header_len_from_raw_pack. Qed.
Print Assumptions C05_header_len_from_raw_pack.
Theorem C05_header_len_from_raw_unpack : forall d h, wf_bytes d -> hdr_unpack d = Ok h ->
  header_len_from_raw d = Ok (hdr_header_len h).
Proof. exact header_len_from_raw_unpack. Qed.
Print Assumptions C05_header_len_from_raw_unpack.

(* verify_length_and_checksum, as used by every PDU decoder *)
Theorem C05_verify_length_and_checksum : forall h d, 2 <= hdr_packet_len h ->
  hdr_verify_length_and_checksum h d =
  if len d <? hdr_packet_len h then Err ETooShort
  else if (cf_crc (h_conf h) =? 1) && negb (crc16 (firstn (Z.to_nat (hdr_packet_len h)) d) =? 0)
       then Err ECrc else Ok (hdr_packet_len h).
Proof. exact hdr_verify_spec. Qed.
Print Assumptions C05_verify_length_and_checksum.

(* non-vacuity: a valid header with 8-octet IDs, all seven flag bits set, length 65535 *)
Example C05_nonvacuous : hdr_valid hdr_example /\
  hdr_layout hdr_example =
  [63; 255; 255; 249; 1; 2; 3; 4; 5; 6; 7; 8; 18; 52; 255; 255; 255; 255; 255; 255; 255; 255].
Proof. split; [exact hdr_valid_example | exact hdr_layout_example]. Qed.
