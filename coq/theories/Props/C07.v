(* C07 — File Data PDU.  State of the code BEFORE the repairs: the round-trip statements are
   false; witnesses below (each replayed on the implementation by harness/props/c07.py). *)
From Coq Require Import ZArith List Bool.
From SP Require Import Base.Result Base.Bytes Model.PduHeader Model.FileData Spec.FileDataSpec Proofs.FileDataProofs.
Import ListNotations.
Open Scope Z_scope.

Theorem C07_unpack_pack_empty_refuted :
  exists c q, fd_valid c q /\ fd_pack (fd_pdu_of c q) = Ok (fd_layout c q) /\
              fd_unpack (fd_layout c q) = Err EValue.
Proof. exact fd_unpack_pack_empty_refuted. Qed.
Print Assumptions C07_unpack_pack_empty_refuted.
Theorem C07_unpack_crc_in_data_refuted :
  exists c q p, fd_valid c q /\ fd_unpack (fd_layout c q) = Ok p /\
                fp_data q = [7] /\ fp_data (fd_params p) = [7; 163; 239].
Proof. exact fd_unpack_crc_in_data_refuted. Qed.
Print Assumptions C07_unpack_crc_in_data_refuted.
Theorem C07_unpack_suffix_in_data_refuted :
  exists c q p, fd_valid c q /\ fd_unpack (fd_layout c q ++ [65]) = Ok p /\
                fp_data q = [7] /\ fp_data (fd_params p) = [7; 65].
Proof. exact fd_unpack_suffix_in_data_refuted. Qed.
Print Assumptions C07_unpack_suffix_in_data_refuted.
Theorem C07_unpack_meta_len_refuted :
  exists c q p, fd_valid c q /\ fd_unpack (fd_layout c q) = Ok p /\
                fd_dlen c q = 11 /\ h_dlen (fd_hdr p) = 6 /\ fd_pack p <> Ok (fd_layout c q).
Proof. exact fd_unpack_meta_len_refuted. Qed.
Print Assumptions C07_unpack_meta_len_refuted.
