(* C07 — CFDP File Data PDU carries offset, segment metadata and file data exactly.
   Statements only; every proof is `exact <lemma>` from Proofs/FileDataProofs.v.

   fd_valid c q (Spec/FileDataSpec.v): valid header configuration c (C05), file data any
   octet string, optional segment metadata with state 0..3 and 0..63 octets, offset within
   the 32-bit (64-bit with the large-file flag) range, data field <= 65535 octets.

   The statements hold for every configuration, CRC flag included: the two facts about CRC-16 the
   trailer needs (crc16_range, crc_residue, Base/Crc16Facts.v) are supplied in Proofs/FileDataCrc.v. *)
From Coq Require Import ZArith List Bool.
From SP Require Import Base.Result Base.Bytes Base.Crc16 Model.PduHeader Spec.PduHeaderSpec
  Model.FileData Spec.FileDataSpec Proofs.FileDataProofs Proofs.FileDataCrc.
Import ListNotations.
Open Scope Z_scope.

(* constructor: the PDU for (c, q) holds header type 1, direction 0, metadata flag, data-field
   length = octets after the header; the caller's PduConfig is returned unchanged *)
Theorem C07_new : forall c q, fd_valid c q -> fd_new c q = Ok (fd_pdu_of c q, c).
Proof. exact fd_new_ok. Qed.
Print Assumptions C07_new.

(* pack = header ++ [state*64 + |meta|; meta] ++ be 4|8 offset ++ data ++ [crc16 of all before] *)
Theorem C07_pack_layout : forall c q, fd_valid c q ->
  fd_pack (fd_pdu_of c q) = Ok (fd_layout c q).
Proof. exact fd_pack_layout_full. Qed.
Print Assumptions C07_pack_layout.

(* data-field length covers all of it; packet_len = number of packed octets *)
Theorem C07_data_field_len : forall c q, fd_valid c q ->
  let p := fd_pdu_of c q in
  h_dlen (fd_hdr p) = len (fd_layout c q) - hdr_header_len (fd_hdr p) /\
  fd_packet_len p = len (fd_layout c q) /\
  h_dlen (fd_hdr p) = len (fd_body c q) + (if cf_crc c =? 1 then 2 else 0).
Proof. exact fd_data_field_len. Qed.
Print Assumptions C07_data_field_len.

(* decode (encode p ++ anything) = p : offset, metadata, file data exactly (also for empty file
   data, also with the CRC trailer and with trailing octets), header and lengths included *)
Theorem C07_unpack_pack : forall c q rest, fd_valid c q -> wf_bytes rest ->
  fd_unpack (fd_layout c q ++ rest) = Ok (fd_pdu_of c q).
Proof. exact fd_unpack_pack_full. Qed.
Print Assumptions C07_unpack_pack.

(* the property as one chain: construct, pack, decode (with any suffix): same offset, metadata,
   file data; equal PDU; identical re-pack; reported length = packed length *)
Theorem C07_roundtrip : forall c q rest, fd_valid c q -> wf_bytes rest ->
  exists p b p',
    fd_new c q = Ok (p, c) /\ fd_pack p = Ok b /\ b = fd_layout c q /\
    fd_unpack (b ++ rest) = Ok p' /\
    fp_offset (fd_params p') = fp_offset q /\ fp_meta (fd_params p') = fp_meta q /\
    fp_data (fd_params p') = fp_data q /\
    fd_eqb p' p = true /\ fd_pack p' = Ok b /\ fd_packet_len p' = len b.
Proof. exact fd_roundtrip_full. Qed.
Print Assumptions C07_roundtrip.

(* metadata longer than 63 octets: the constructor accepts, pack refuses with ValueError *)
Theorem C07_meta_gt63_refused : forall c q s, conf_valid c -> fp_meta q = Some s ->
  len (sm_data s) > 63 -> fd_dlen c q <= 65535 ->
  exists p, fd_new c q = Ok (p, c) /\ fd_pack p = Err EValue.
Proof. exact fd_meta_gt63_refused_valid. Qed.
Print Assumptions C07_meta_gt63_refused.

(* get_max_file_seg_len_for_max_packet_len_and_pdu_cfg *)
Theorem C07_max_seg_len : forall c mx m, flag (cf_large c) ->
  get_max_file_seg_len c mx m =
  if mx <? fd_overhead c m then Err EValue else Ok (mx - fd_overhead c m).
Proof. exact max_seg_len_spec. Qed.
Print Assumptions C07_max_seg_len.
Theorem C07_max_seg_len_exact : forall c q mx r, fd_valid c q ->
  get_max_file_seg_len c mx (fp_meta q) = Ok r -> len (fp_data q) = r ->
  r + fd_overhead c (fp_meta q) = mx /\
  exists b, fd_pack (fd_pdu_of c q) = Ok b /\ len b = mx.
Proof. exact max_seg_len_exact_full. Qed.
Print Assumptions C07_max_seg_len_exact.

(* setters (C11): after any history the PDU is the one a fresh constructor call builds *)
Theorem C07_setters_inv : forall c q ops p0 c' p, flag (cf_large c) ->
  fd_new c q = Ok (p0, c') -> fd_apply_ops p0 ops = Ok p ->
  c' = c /\ p = fd_pdu_of c (fd_params p).
Proof. exact fd_setters_inv. Qed.
Print Assumptions C07_setters_inv.

(* non-vacuity: large file, 2/4-octet widths, metadata, all flags *)
Example C07_nonvacuous :
  (fd_valid fd_example_conf fd_example_params /\ crc_ok fd_example_conf) /\
  fd_layout fd_example_conf fd_example_params =
  [53; 0; 13; 155; 1; 2; 255; 255; 255; 255; 255; 255;
   194; 170; 187; 255; 255; 255; 255; 255; 255; 255; 255; 104; 105].
Proof. split; [exact fd_valid_example | exact fd_layout_example]. Qed.

(* the converse, for EVERY octet string the decoder accepts (unconditional, CRC or not): the
   decoded header and parameters, laid out again per the standard, are exactly the octets in
   front of the CRC trailer -- not one octet more or fewer; the CRC over the declared packet is
   0 when the flag is set; decoded metadata is 0..63 octets with state 0..3 *)
Theorem C07_unpack_inv : forall d p, wf_bytes d -> fd_unpack d = Ok p ->
  let h := fd_hdr p in
  hdr_unpack d = Ok h /\ hdr_valid h /\
  hdr_packet_len h <= len d /\
  (cf_crc (h_conf h) = 1 -> crc16 (firstn (Z.to_nat (hdr_packet_len h)) d) = 0) /\
  hdr_header_len h <= fd_end h /\
  hdr_layout h ++ fd_body (h_conf h) (fd_params p) = firstn (Z.to_nat (fd_end h)) d /\
  meta_valid (fp_meta (fd_params p)) /\
  (h_meta h = match fp_meta (fd_params p) with None => 0 | Some _ => 1 end).
Proof. exact fd_unpack_inv. Qed.
Print Assumptions C07_unpack_inv.
