From Coq Require Import ZArith List Bool.
From SP Require Import Base.Result Base.Bytes Model.PduHeader Model.FileData Spec.FileDataSpec.
