(* C20 — unsigned byte fields keep value, width and big-endian bytes coherent.
   Statements only; every proof is `exact <lemma>` from Proofs/UtilProofs.v.
   Model: Model/Util.v (spacepackets/util.py after the repair of D-C20-1, /repo a3a1eb1);
   Spec: Spec/UtilSpec.v (width_ok = {0,1,2,4,8}, representable w v = 0 <= v < 256^w,
   ubf_layout w v = be_encode w v, hex_of_bytes, twos_complement).
   No sweep is involved: every statement holds for all integers / all octet strings, so the
   32- and 64-bit ranges are covered in full. *)
From Coq Require Import ZArith List.
From SP Require Import Base.Result Base.Bytes Model.Util Spec.UtilSpec Proofs.UtilProofs.
Import ListNotations.
Open Scope Z_scope.

(* constructor: accepted exactly for a supported width and a value representable in it; the
   octets are then the big-endian encoding in exactly that width.  Negative values, values
   too large and unsupported widths -> ValueError (for every integer, also beyond 2^64). *)
Theorem C20_new_accepts_iff : forall v w,
  (width_ok w /\ representable w v ->
     ubf_new v w = Ok {| ubf_len := w; ubf_val := v; ubf_bytes := ubf_layout w v |}) /\
  (~ (width_ok w /\ representable w v) -> ubf_new v w = Err EValue).
Proof. exact ubf_new_accepts_iff. Qed.
Print Assumptions C20_new_accepts_iff.

(* integer, length, octet, hex and hash views of a constructed field agree *)
Theorem C20_views_agree : forall v w f, ubf_new v w = Ok f ->
  ubf_int f = v /\ ubf_pylen f = w /\ ubf_as_bytes f = ubf_layout w v /\
  len (ubf_as_bytes f) = w /\ wf_bytes (ubf_as_bytes f) /\ be_decode (ubf_as_bytes f) = v /\
  ubf_hex_str f = (if w =? 0 then None else Some (hex_of_bytes (ubf_layout w v))) /\
  ubf_hash_key f = (v, w).
Proof. exact ubf_views_agree. Qed.
Print Assumptions C20_views_agree.

(* from octets, directly: every octet string of a supported length (0 included) is the field
   (big-endian value, length, the octets themselves); every other length -> ValueError *)
Theorem C20_from_bytes : forall raw, wf_bytes raw ->
  (width_ok (len raw) ->
     ubf_from_bytes raw = Ok {| ubf_len := len raw; ubf_val := be_decode raw; ubf_bytes := raw |}) /\
  (~ width_ok (len raw) -> ubf_from_bytes raw = Err EValue).
Proof. exact ubf_from_bytes_spec. Qed.
Print Assumptions C20_from_bytes.

(* building a field from its own octets gives back an equal (here: identical) field — for
   every width including the empty field (false before the repair: D-C20-1) *)
Theorem C20_from_bytes_roundtrip : forall v w f,
  ubf_new v w = Ok f -> ubf_from_bytes (ubf_as_bytes f) = Ok f.
Proof. exact ubf_from_bytes_roundtrip. Qed.
Print Assumptions C20_from_bytes_roundtrip.

(* ... and via the width-dispatching generator (widths 1, 2, 4, 8), from the integer and from
   the octets followed by anything *)
Theorem C20_generator_roundtrip : forall v w f rest,
  gen_width_ok w -> wf_bytes rest -> ubf_new v w = Ok f ->
  gen_from_bytes w (ubf_as_bytes f ++ rest) = Ok f /\ gen_from_int w v = Ok f.
Proof. exact gen_from_bytes_roundtrip. Qed.
Print Assumptions C20_generator_roundtrip.

Theorem C20_generator_from_int : forall w v,
  (gen_width_ok w -> gen_from_int w v = ubf_new v w) /\
  (~ gen_width_ok w -> gen_from_int w v = Err EValue).
Proof. exact gen_from_int_spec. Qed.
Print Assumptions C20_generator_from_int.

(* generator / ByteFieldU8..U64.from_*_bytes on every octet string: the first w octets when
   there are at least w (sized_from_bytes), ValueError when fewer or when w is unsupported *)
Theorem C20_generator_from_bytes : forall w s, wf_bytes s ->
  (gen_width_ok w -> gen_from_bytes w s =
     if len s <? w then Err EValue
     else Ok {| ubf_len := w; ubf_val := be_decode (firstn (Z.to_nat w) s);
                ubf_bytes := firstn (Z.to_nat w) s |}) /\
  (~ gen_width_ok w -> gen_from_bytes w s = Err EValue).
Proof. exact gen_from_bytes_spec. Qed.
Print Assumptions C20_generator_from_bytes.

Theorem C20_sized_from_bytes : forall s, wf_bytes s ->
  u8_from_bytes s = gen_from_bytes 1 s /\ u16_from_bytes s = gen_from_bytes 2 s /\
  u32_from_bytes s = gen_from_bytes 4 s /\ u64_from_bytes s = gen_from_bytes 8 s.
Proof. exact sized_are_generator. Qed.
Print Assumptions C20_sized_from_bytes.

(* equality and hashing depend on exactly (value, width) *)
Theorem C20_eq_iff : forall v w f v' w' g, ubf_new v w = Ok f -> ubf_new v' w' = Ok g ->
  (ubf_eq f g = true <-> (v = v' /\ w = w')) /\ (ubf_eq f g = true <-> f = g).
Proof. exact ubf_eq_iff. Qed.
Print Assumptions C20_eq_iff.
Theorem C20_eq_hash : forall f g, ubf_eq f g = true <-> ubf_hash_key f = ubf_hash_key g.
Proof. exact ubf_eq_hash. Qed.
Print Assumptions C20_eq_hash.
Theorem C20_eq_bytes_iff : forall v w f b, ubf_new v w = Ok f ->
  (ubf_eq_bytes f b = true <-> b = ubf_layout w v).
Proof. exact ubf_eq_bytes_iff. Qed.
Print Assumptions C20_eq_bytes_iff.

(* assignment by integer = constructing afresh with the same width (so the same acceptance
   range, the same ValueError, and all views in step) *)
Theorem C20_set_int : forall f v, ubf_wf f -> ubf_set_int f v = ubf_new v (ubf_len f).
Proof. exact ubf_set_int_spec. Qed.
Print Assumptions C20_set_int.

(* assignment by octets: the first byte_len octets, ValueError when there are fewer; when
   accepted it equals constructing afresh from their big-endian value *)
Theorem C20_set_bytes : forall f b, ubf_wf f -> wf_bytes b ->
  ubf_set_bytes f b =
    (if len b <? ubf_len f then Err EValue
     else Ok {| ubf_len := ubf_len f; ubf_val := be_decode (firstn (Z.to_nat (ubf_len f)) b);
                ubf_bytes := firstn (Z.to_nat (ubf_len f)) b |}) /\
  (ubf_len f <= len b ->
     ubf_set_bytes f b = ubf_new (be_decode (firstn (Z.to_nat (ubf_len f)) b)) (ubf_len f)).
Proof. exact ubf_set_bytes_spec. Qed.
Print Assumptions C20_set_bytes.

(* ubf_wf is exactly "constructible", and any sequence of assignments (accepted or refused)
   keeps it: all views stay in step, the width never changes *)
Theorem C20_wf_iff : forall f, ubf_wf f <-> ubf_new (ubf_val f) (ubf_len f) = Ok f.
Proof. exact ubf_wf_iff. Qed.
Print Assumptions C20_wf_iff.
Theorem C20_history_wf : forall ops f, ubf_wf f -> Forall op_wf ops ->
  let f' := fold_left ubf_apply ops f in ubf_wf f' /\ ubf_len f' = ubf_len f.
Proof. exact ubf_history_wf. Qed.
Print Assumptions C20_history_wf.

(* conversion helpers over their whole accepted range (and what they do outside it) *)
Theorem C20_to_unsigned : forall n v,
  (~ width_ok n -> to_unsigned n v = Err EValue) /\
  (n = 0 -> to_unsigned n v = Ok []) /\
  (gen_width_ok n -> 0 <= v < 256 ^ n -> to_unsigned n v = Ok (ubf_layout n v)) /\
  (gen_width_ok n -> 256 ^ n <= v -> to_unsigned n v = Err EValue) /\
  (gen_width_ok n -> v < 0 -> to_unsigned n v = Err EStruct).
Proof. exact to_unsigned_spec. Qed.
Print Assumptions C20_to_unsigned.
Theorem C20_to_signed : forall n v,
  (~ width_ok n -> to_signed n v = Err EValue) /\
  (n = 0 -> to_signed n v = Ok []) /\
  (gen_width_ok n -> Z.abs v <= 2 ^ (n * 8 - 1) - 1 ->
     to_signed n v = Ok (twos_complement (Z.to_nat n) v)) /\
  (gen_width_ok n -> Z.abs v > 2 ^ (n * 8 - 1) - 1 -> to_signed n v = Err EValue).
Proof. exact to_signed_spec. Qed.
Print Assumptions C20_to_signed.

(* non-vacuity *)
Example C20_u64_max :
  ubf_new 18446744073709551615 8 =
  Ok {| ubf_len := 8; ubf_val := 18446744073709551615; ubf_bytes := [255;255;255;255;255;255;255;255] |}.
Proof. exact ubf_example_u64. Qed.
Example C20_empty : ubf_new 0 0 = Ok {| ubf_len := 0; ubf_val := 0; ubf_bytes := [] |}.
Proof. exact ubf_example_empty. Qed.
Example C20_wf_inhabited : ubf_wf {| ubf_len := 4; ubf_val := 2147483648; ubf_bytes := [128; 0; 0; 0] |}.
Proof. exact ubf_example_wf. Qed.
Example C20_to_signed_edge : to_signed 2 (-32767) = Ok [128; 1] /\ to_signed 2 (-32768) = Err EValue.
Proof. exact to_signed_example. Qed.
