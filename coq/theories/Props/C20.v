(* C20 — unsigned byte fields.  State on the UNREPAIRED code: witness of D-C20-1. *)
From Coq Require Import ZArith List.
From SP Require Import Base.Result Base.Bytes Model.Util Spec.UtilSpec Proofs.UtilProofs.
Import ListNotations.
Open Scope Z_scope.

Theorem C20_from_bytes_empty_refuted :
  exists f, ubf_new 0 0 = Ok f /\ ubf_as_bytes f = [] /\
            ubf_from_bytes (ubf_as_bytes f) = Err EValue /\ ubf_set_bytes f [] = Err EValue.
Proof. exact ubf_from_bytes_empty_refuted. Qed.
Print Assumptions C20_from_bytes_empty_refuted.
