(* C09 -- non-vacuity of the hypotheses of the generated theorems in Props/C09.v (a generated file
   holds statements only).  Proved in Proofs/XcutExamples.v, restated here in full. *)
From Coq Require Import ZArith List.
From SP Require Import Base.Result Base.Bytes Model.SpacePacket Model.UslpHeader Model.UslpFrame Spec.UslpSpec
  Model.Cds Spec.CdsSpec Proofs.CdsProofs Model.Srv1 Spec.Srv1Spec Proofs.Srv1Proofs Proofs.XcutExamples.
Import ListNotations.
Open Scope Z_scope.

(* frame_consistent /\ frame_len_set /\ props_match: C09_frame_suffix_irrelevant *)
Example C09_frame_hyps_inhabited :
  frame_consistent x_frame /\ frame_len_set x_frame /\ props_match x_frame x_props /\
  length (frame_layout (hdr_layout (hdr x_frame)) x_frame) = 24%nat /\
  frame_unpack (firstn 23 (frame_layout (hdr_layout (hdr x_frame)) x_frame))
               (ftype_of_rule (rules (ftfdf x_frame))) x_props = Err EInvalidLen.
Proof. exact frame_hyps_example. Qed.

(* base_valid, phdr_valid: C09_thdr_/C09_phdr_ no_overread, suffix_irrelevant *)
Example C09_uslp_hdr_hyps_inhabited :
  base_valid x_base /\ phdr_valid x_phdr /\
  thdr_unpack (firstn 3 (thdr_layout x_base)) USLP_VERSION_NUMBER = Err EInvalidLen /\
  phdr_unpack (firstn 13 (phdr_layout x_phdr)) USLP_VERSION_NUMBER = Err EInvalidLen.
Proof. exact uslp_hdr_hyps_example. Qed.

(* cds_packable: C09_cds_suffix_irrelevant *)
Example C09_cds_packable_inhabited :
  cds_packable {| cdays := 65535; cms := 86399999 |} /\
  cds_unpack (cds_layout {| cdays := 65535; cms := 86399999 |} ++ [9]) =
  cds_unpack (cds_layout {| cdays := 65535; cms := 86399999 |}).
Proof. exact cds_packable_example. Qed.

(* srv1_args_valid / srv1_shape_ok / cfg_matches: C09_srv1_unpack_layout_app *)
Example C09_srv1_hyps_inhabited :
  srv1_args_valid 2047 6 16383 7 15 65535 [1; 2; 3] ex_h (Some (2, 65535)) (Some (4, 4294967295, [9; 8; 7])) /\
  srv1_shape_ok 6 (has (Some (2, 65535))) (has (Some (4, 4294967295, [9; 8; 7]))) /\
  cfg_matches {| up_ts_len := 3; up_step := 2; up_err := 4 |} (Some (2, 65535)) (Some (4, 4294967295, [9; 8; 7])).
Proof. exact srv1_hyps_example. Qed.
