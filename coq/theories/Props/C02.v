(* placeholder until the proofs are in: no theorem yet *)
