(* C02 — PUS-C telecommand encode/decode is exact and mutually inverse.
   Statements only; proofs are `exact <lemma>` from Proofs/PusTcProofs.v.
   tc_layout (Spec/PusSpec.v) is the independent oracle: CCSDS primary header (type TC,
   secondary header present, unsegmented, data length = total - 7), [0x20+ack; service;
   subservice; source-id hi; lo], application data, CRC-16/CCITT-FALSE (bitwise definition). *)
From Coq Require Import ZArith List Lia.
From SP Require Import Base.Result Base.Bytes Base.Crc16 Model.SpacePacket Spec.SpacePacketSpec
  Model.PusTc Spec.PusSpec Proofs.PusTcProofs Model.PusTcHist Proofs.PusHeaderRefusal Proofs.PusAltCtor.
Import ListNotations.
Open Scope Z_scope.

(* packing yields exactly the standard's octets; reported length = packed length = dlen + 7 *)
Theorem C02_pack_layout : forall service subservice apid seq source_id ack app,
  tc_args_valid service subservice apid seq source_id ack app ->
  exists t t', tc_new service subservice apid app seq source_id ack = Ok t /\
    tc_pack t = Ok (tc_layout service subservice apid seq source_id ack app, t') /\
    tc_sph t' = tc_sph t /\ tc_sec t' = tc_sec t /\ tc_app t' = tc_app t /\
    tc_packet_len t = len (tc_layout service subservice apid seq source_id ack app) /\
    dlen (tc_sph t) = len (tc_layout service subservice apid seq source_id ack app) - 7.
Proof. exact tc_pack_layout. Qed.
Print Assumptions C02_pack_layout.

(* construct -> pack -> unpack (whatever follows in the buffer): equal to the original in both
   directions of ==, every field identical, re-packing reproduces the octets, the generic
   space-packet view packs to the same octets, the standalone CRC check passes *)
Theorem C02_roundtrip : forall service subservice apid seq source_id ack app rest,
  tc_args_valid service subservice apid seq source_id ack app -> wf_bytes rest ->
  exists t p t' u,
    tc_new service subservice apid app seq source_id ack = Ok t /\
    tc_pack t = Ok (p, t') /\ p = tc_layout service subservice apid seq source_id ack app /\
    tc_unpack (p ++ rest) = Ok u /\
    tc_sph u = tc_sph t /\ tc_sec u = tc_sec t /\ tc_app u = tc_app t /\
    tc_eqb u t = true /\ tc_eqb t u = true /\
    (exists u', tc_pack u = Ok (p, u')) /\
    tc_to_space_packet_pack t = Ok p /\
    check_pus_crc p = true /\
    tc_packet_len u = len p.
Proof. exact tc_roundtrip. Qed.
Print Assumptions C02_roundtrip.

(* the decoder equals the standard's field table with the documented refusals on EVERY octet string *)
Theorem C02_unpack_spec : forall d, wf_bytes d -> tc_unpack d = tc_decode_spec d.
Proof. exact tc_unpack_spec. Qed.
Print Assumptions C02_unpack_spec.

(* acceptance implies: declared length holds secondary header and CRC, fits the buffer, CRC over
   exactly the declared octets is zero, application data is exactly octets 11 .. n-3 *)
Theorem C02_accept_inv : forall d t, wf_bytes d -> tc_unpack d = Ok t ->
  let n := sph_packet_len (tc_sph t) in
  13 <= n <= len d /\ crc16 (firstn (Z.to_nat n) d) = 0 /\
  sph_unpack d = Ok (tc_sph t) /\ tc_app t = slice d 11 (n - 2) /\
  tc_crc t = Some (slice d (n - 2) n).
Proof. exact tc_accept_inv. Qed.
Print Assumptions C02_accept_inv.

(* a declared packet length too small for secondary header + CRC is rejected with a documented error *)
Theorem C02_rejects_small_declared_length : forall d, wf_bytes d -> (6 <= length d)%nat ->
  (forall h, sph_unpack d = Ok h -> dlen h + 7 < 13) ->
  exists e, tc_unpack d = Err e /\ documented e = true.
Proof. exact tc_unpack_rejects_small_decl. Qed.
Print Assumptions C02_rejects_small_declared_length.

(* constructor refusals: APID, sequence count, application data that does not fit *)
Theorem C02_new_refuses : forall service subservice apid seq source_id ack app,
  ~ (0 <= apid <= 2047 /\ 0 <= seq <= 16383 /\ len app <= 65529) ->
  tc_new service subservice apid app seq source_id ack = Err EValue.
Proof. exact tc_new_refuses. Qed.
Print Assumptions C02_new_refuses.

(* a primary-header field pushed out of range through the header object the telecommand hands out
   (tc.sp_header.seq_count = 20000; no setter validates): every serialisation route -- pack(),
   pack(recalc_crc=False), calc_crc(), to_space_packet().pack() -- refuses with ValueError, nothing is
   encoded (C01's refusal clause seen through PusTc), and on the live object nothing changes *)
Theorem C02_header_out_of_range_refused : forall t, ~ sph_in_range (tc_sph t) ->
  tc_pack t = Err EValue /\ tc_pack_norecalc t = Err EValue /\ tc_calc_crc t = Err EValue /\
  tc_to_space_packet_pack t = Err EValue /\ tc_view t = Err EValue.
Proof. exact tc_header_out_of_range_refused. Qed.
Print Assumptions C02_header_out_of_range_refused.
Theorem C02_live_header_out_of_range_refused : forall t0 t o,
  ~ sph_in_range (tc_sph t) -> tcx_serialises o -> tcx_step t0 t o = (t, Err EValue).
Proof. exact tcx_header_out_of_range_refused. Qed.
Print Assumptions C02_live_header_out_of_range_refused.

Example C02_args_valid_inhabited : tc_args_valid 17 1 2047 16383 65535 15 [1; 2; 255].
Proof. exact tc_valid_example. Qed.

(* non-vacuity of C02_rejects_small_declared_length: 1b 1a cb 02 00 02 29 f0 1a 04 62 -- 11 octets,
   length field 2 (declared packet length 9 < 13); refused with ValueError *)
Example C02_small_declared_length_inhabited :
  let d := [27; 26; 203; 2; 0; 2; 41; 240; 26; 4; 98] in
  wf_bytes d /\ (6 <= length d)%nat /\ (forall h, sph_unpack d = Ok h -> dlen h + 7 < 13) /\
  tc_unpack d = Err EValue /\ documented EValue = true.
Proof.
  cbv zeta. split; [repeat constructor; lia|]. split; [cbn; lia|].
  split; [|split; [vm_compute; reflexivity|reflexivity]].
  intros h E. vm_compute in E. injection E as <-. vm_compute. reflexivity.
Qed.

(* ---- alternative construction paths (PusTc.from_sp_header / from_composite_fields) ---- *)
(* from_sp_header on ANY caller header (whatever packet type, secondary header flag and data length
   it carried) with version 0 and unsegmented flags yields the constructor's object, so layout,
   round trip and CRC theorems above apply to it unchanged *)
Theorem C02_from_sp_header_is_new : forall pt sh dl apid seq service subservice app source_id ack h t,
  sph_new pt apid seq dl sh SF_UNSEG 0 = Ok h ->
  tc_new service subservice apid app seq source_id ack = Ok t ->
  tc_from_sp_header h service subservice app source_id ack = t.
Proof. exact tc_from_sp_header_is_new. Qed.
Print Assumptions C02_from_sp_header_is_new.

(* for every header: type, flag and length are overwritten (length = secondary header + data + 1,
   i.e. total - 7), the rest of the header is kept, the CRC cache is empty *)
Theorem C02_from_sp_header_fields : forall h service subservice app source_id ack,
  let t := tc_from_sp_header h service subservice app source_id ack in
  ver (tc_sph t) = ver h /\ sflags (tc_sph t) = sflags h /\ apid (tc_sph t) = apid h /\
  scount (tc_sph t) = scount h /\ ptype (tc_sph t) = PT_TC /\ shf (tc_sph t) = 1 /\
  dlen (tc_sph t) = PUS_C_SEC_HEADER_LEN + len app + 1 /\
  tc_app t = app /\ tc_crc t = None /\
  tc_sec t = {| tcs_service := service; tcs_subservice := subservice;
                tcs_source_id := source_id; tcs_ack := ack |}.
Proof. exact tc_from_sp_header_fields. Qed.
Print Assumptions C02_from_sp_header_fields.

Theorem C02_from_composite_is_new : forall service subservice apid app seq source_id ack t,
  tc_new service subservice apid app seq source_id ack = Ok t ->
  tc_from_composite_fields (tc_sph t) (tc_sec t) (tc_app t) = Ok t.
Proof. exact tc_from_composite_is_new. Qed.
Print Assumptions C02_from_composite_is_new.

Theorem C02_from_composite_refuses_tm : forall h s app,
  ptype h = PT_TM -> tc_from_composite_fields h s app = Err EValue /\ documented EValue = true.
Proof. intros h s app H. split; [exact (tc_from_composite_refuses_tm h s app H)|reflexivity]. Qed.
Print Assumptions C02_from_composite_refuses_tm.

Theorem C02_from_composite_adopts : forall h s app,
  ptype h <> PT_TM ->
  tc_from_composite_fields h s app = Ok {| tc_sph := h; tc_sec := s; tc_app := app; tc_crc := None |}.
Proof. exact tc_from_composite_adopts. Qed.
Print Assumptions C02_from_composite_adopts.

(* hence the standard's octets, whatever the caller's header said about type, flag and length *)
Theorem C02_from_sp_header_layout : forall pt sh dl service subservice apid seq source_id ack app h,
  tc_args_valid service subservice apid seq source_id ack app ->
  sph_new pt apid seq dl sh SF_UNSEG 0 = Ok h ->
  exists t', tc_pack (tc_from_sp_header h service subservice app source_id ack)
             = Ok (tc_layout service subservice apid seq source_id ack app, t') /\
    tc_packet_len (tc_from_sp_header h service subservice app source_id ack)
      = len (tc_layout service subservice apid seq source_id ack app).
Proof. exact tc_from_sp_header_layout. Qed.
Print Assumptions C02_from_sp_header_layout.

(* non-vacuity: a TM-typed, flag-less header of the wrong length handed to from_sp_header *)
Example C02_from_sp_header_inhabited :
  exists h t, sph_new PT_TM 5 7 99 0 SF_UNSEG 0 = Ok h /\ tc_new 17 1 5 [1;2] 7 3 15 = Ok t /\
    tc_from_sp_header h 17 1 [1;2] 3 15 = t.
Proof. eexists. eexists. split; [vm_compute; reflexivity|]. split; vm_compute; reflexivity. Qed.
