(* C18 — reserved CFDP messages (proxy, directory, originating ID) round-trip via TLVs.
   Statements only; every proof is `exact <lemma>` from Proofs/MsgProofs.v.
   `wire_ok r mt f`  : r packs to the message-to-user TLV whose value is "cfdp", the message
                       type octet mt and the fields f of Spec/MsgSpec.v (727.0-B-5 section 6),
                       reports that length, and MessageToUserTlv.unpack(pack ++ anything)
                       .to_reserved_msg_tlv() yields r again;
   `classified r mt p d o` : message type and the proxy / directory / originating-ID predicates. *)
From Coq Require Import ZArith List Bool.
From SP Require Import Base.Result Base.Bytes Model.Lv Model.Tlv Model.MsgToUser
  Spec.TlvSpec Spec.MsgSpec Proofs.MsgProofs Proofs.MsgLimits.
Import ListNotations.
Open Scope Z_scope.

(* ---------------- the reserved-message test never raises ---------------- *)
Theorem C18_is_reserved_total : forall t,
  (is_reserved_cfdp_message t = Ok true \/ is_reserved_cfdp_message t = Ok false) /\
  (is_reserved_cfdp_message t = Ok true <->
   5 <= len (tlv_value t) /\ firstn 4 (tlv_value t) = cfdp_marker).
Proof. exact is_reserved_total. Qed.
Print Assumptions C18_is_reserved_total.

(* any other message-to-user content decodes to "not reserved" *)
Theorem C18_not_reserved : forall v rest,
  len v <= 255 -> ~ (5 <= len v /\ firstn 4 v = cfdp_marker) ->
  decode_reserved (msg_layout v ++ rest) = Ok None.
Proof. exact decode_not_reserved. Qed.
Print Assumptions C18_not_reserved.

(* ---------------- the nine message kinds ---------------- *)
Theorem C18_put_request : forall v w S D,
  width_ok w -> 0 <= v < 256 ^ w -> len S <= 255 -> len D <= 255 ->
  len (put_request_fields (Z.to_nat w) v S D) <= 250 ->
  let f := put_request_fields (Z.to_nat w) v S D in
  exists r, proxy_put_request (v, w) S D = Ok r /\ wire_ok r MT_PROXY_PUT_REQUEST f /\
            get_proxy_put_request_params r = Ok (Some ((v, w), S, D)) /\
            classified r MT_PROXY_PUT_REQUEST true false false.
Proof. exact C18_put_request_l. Qed.
Print Assumptions C18_put_request.

Theorem C18_put_cancel :
  exists r, proxy_cancel_request = Ok r /\ wire_ok r MT_PROXY_PUT_CANCEL [] /\
            classified r MT_PROXY_PUT_CANCEL true false false.
Proof. exact C18_cancel_l. Qed.
Print Assumptions C18_put_cancel.

Theorem C18_closure_request : forall b, In b [0; 1] ->
  exists r, proxy_closure_request b = Ok r /\ wire_ok r MT_PROXY_CLOSURE_REQUEST (closure_fields b) /\
            get_proxy_closure_requested r = Ok (Some b) /\
            classified r MT_PROXY_CLOSURE_REQUEST true false false.
Proof. exact C18_closure_l. Qed.
Print Assumptions C18_closure_request.

Theorem C18_transmission_mode : forall m, In m [0; 1] ->
  exists r, proxy_transmission_mode m = Ok r /\
            wire_ok r MT_PROXY_TRANSMISSION_MODE (transmission_mode_fields m) /\
            get_proxy_transmission_mode r = Ok (Some m) /\
            classified r MT_PROXY_TRANSMISSION_MODE true false false.
Proof. exact C18_transmission_mode_l. Qed.
Print Assumptions C18_transmission_mode.

(* all 13 condition codes x delivery codes x file statuses *)
Theorem C18_put_response : forall cc dc fs,
  In cc [0; 1; 2; 3; 4; 5; 6; 7; 8; 10; 11; 14; 15] -> In dc [0; 1] -> In fs [0; 1; 2; 3] ->
  exists r, proxy_put_response cc dc fs = Ok r /\
            wire_ok r MT_PROXY_PUT_RESPONSE (put_response_fields cc dc fs) /\
            get_proxy_put_response_params r = Ok (Some (cc, dc, fs)) /\
            classified r MT_PROXY_PUT_RESPONSE true false false.
Proof. exact C18_put_response_l. Qed.
Print Assumptions C18_put_response.

(* entity-ID and sequence-number widths 1/2/4/8, all values of those widths *)
Theorem C18_originating_transaction_id : forall sv sw qv qw,
  width_ok sw -> width_ok qw -> 0 <= sv < 256 ^ sw -> 0 <= qv < 256 ^ qw ->
  let f := originating_id_fields (Z.to_nat sw) sv (Z.to_nat qw) qv in
  exists r, originating_transaction_id (sv, sw) (qv, qw) = Ok r /\
            wire_ok r MT_ORIGINATING_TRANSACTION_ID f /\
            get_originating_transaction_id r = Ok (Some ((sv, sw), (qv, qw))) /\
            classified r MT_ORIGINATING_TRANSACTION_ID false false true.
Proof. exact C18_originating_l. Qed.
Print Assumptions C18_originating_transaction_id.

Theorem C18_dir_listing_request : forall P N,
  len P <= 255 -> len N <= 255 -> len (dir_request_fields P N) <= 250 ->
  exists r, directory_listing_request P N = Ok r /\
            wire_ok r MT_DIRECTORY_LISTING_REQUEST (dir_request_fields P N) /\
            get_dir_listing_request_params r = Ok (Some (P, N)) /\
            classified r MT_DIRECTORY_LISTING_REQUEST false true false.
Proof. exact C18_dir_request_l. Qed.
Print Assumptions C18_dir_listing_request.

Theorem C18_dir_listing_response : forall s P N,
  In s [0; 1] -> len P <= 255 -> len N <= 255 -> len (dir_response_fields s P N) <= 250 ->
  exists r, directory_listing_response s P N = Ok r /\
            wire_ok r MT_DIRECTORY_LISTING_RESPONSE (dir_response_fields s P N) /\
            get_dir_listing_response_params r = Ok (Some (s, P, N)) /\
            classified r MT_DIRECTORY_LISTING_RESPONSE false true false.
Proof. exact C18_dir_response_l. Qed.
Print Assumptions C18_dir_listing_response.

Theorem C18_dir_listing_options : forall rc al, In rc [0; 1] -> In al [0; 1] ->
  exists r, directory_listing_parameters rc al = Ok r /\
            wire_ok r MT_CUSTOM_LISTING_PARAMETERS (dir_options_fields rc al) /\
            get_dir_listing_options r = Ok (Some (rc, al)) /\
            classified r MT_CUSTOM_LISTING_PARAMETERS false true false.
Proof. exact C18_dir_options_l. Qed.
Print Assumptions C18_dir_listing_options.

(* ---------------- classification for every message type; foreign parsers answer None -------- *)
Theorem C18_classification : forall mt f,
  classified (rmsg mt f) mt (memz mt proxy_types) (memz mt dir_types) (mt =? 10).
Proof. exact rmsg_classified. Qed.
Print Assumptions C18_classification.

Theorem C18_other_kind_none : forall mt f,
  (mt <> 10 -> get_originating_transaction_id (rmsg mt f) = Ok None) /\
  (mt <> PM_PUT_REQUEST -> get_proxy_put_request_params (rmsg mt f) = Ok None) /\
  (mt <> PM_PUT_RESPONSE -> get_proxy_put_response_params (rmsg mt f) = Ok None) /\
  (mt <> PM_CLOSURE_REQUEST -> get_proxy_closure_requested (rmsg mt f) = Ok None) /\
  (mt <> PM_TRANSMISSION_MODE -> get_proxy_transmission_mode (rmsg mt f) = Ok None) /\
  (mt <> DM_LISTING_REQUEST -> get_dir_listing_request_params (rmsg mt f) = Ok None) /\
  (mt <> DM_LISTING_RESPONSE -> get_dir_listing_response_params (rmsg mt f) = Ok None) /\
  (mt <> DM_CUSTOM_LISTING_PARAMETERS -> get_dir_listing_options (rmsg mt f) = Ok None).
Proof. exact other_kind_none. Qed.
Print Assumptions C18_other_kind_none.

(* every message of every type that fits a TLV is recognised again after packing *)
Theorem C18_any_message_wire : forall mt f, 0 <= mt <= 255 -> len f <= 250 ->
  reserved_new mt f = Ok (rmsg mt f) /\ wire_ok (rmsg mt f) mt f.
Proof. exact any_message_wire. Qed.
Print Assumptions C18_any_message_wire.

Theorem C18_too_long : forall mt f, 0 <= mt <= 255 -> 250 < len f -> reserved_new mt f = Err EValue.
Proof. exact reserved_too_long. Qed.
Print Assumptions C18_too_long.

(* ---- the limit at the CONSTRUCTORS of the three name-carrying messages (the TLV value holds
   at most 255 octets: "cfdp", the type octet, the fields): refused with ValueError exactly when
   the fields exceed 250 octets ---- *)
Theorem C18_put_request_too_long : forall v w S D,
  width_ok w -> 0 <= v < 256 ^ w -> len S <= 255 -> len D <= 255 ->
  250 < len (put_request_fields (Z.to_nat w) v S D) ->
  proxy_put_request (v, w) S D = Err EValue.
Proof. exact put_request_too_long. Qed.
Print Assumptions C18_put_request_too_long.
Theorem C18_put_request_accept_iff : forall v w S D,
  width_ok w -> 0 <= v < 256 ^ w -> len S <= 255 -> len D <= 255 ->
  (is_ok (proxy_put_request (v, w) S D) = true <-> len S + len D <= 247 - w).
Proof. exact put_request_accept_iff. Qed.
Print Assumptions C18_put_request_accept_iff.

Theorem C18_dir_listing_request_too_long : forall P N,
  len P <= 255 -> len N <= 255 -> 250 < len (dir_request_fields P N) ->
  directory_listing_request P N = Err EValue.
Proof. exact dir_request_too_long. Qed.
Print Assumptions C18_dir_listing_request_too_long.
Theorem C18_dir_listing_request_accept_iff : forall P N, len P <= 255 -> len N <= 255 ->
  (is_ok (directory_listing_request P N) = true <-> len P + len N <= 248).
Proof. exact dir_request_accept_iff. Qed.
Print Assumptions C18_dir_listing_request_accept_iff.

Theorem C18_dir_listing_response_too_long : forall s P N,
  In s [0; 1] -> len P <= 255 -> len N <= 255 -> 250 < len (dir_response_fields s P N) ->
  directory_listing_response s P N = Err EValue.
Proof. exact dir_response_too_long. Qed.
Print Assumptions C18_dir_listing_response_too_long.
Theorem C18_dir_listing_response_accept_iff : forall s P N, In s [0; 1] -> len P <= 255 -> len N <= 255 ->
  (is_ok (directory_listing_response s P N) = true <-> len P + len N <= 247).
Proof. exact dir_response_accept_iff. Qed.
Print Assumptions C18_dir_listing_response_accept_iff.

(* names of 251..255 octets (the property's quantifier text says 0..255): such a name cannot be
   carried by any of the three messages, whatever the other name: ValueError at construction.
   (The format allows it: 255-octet TLV value.)  Same on the implementation (replayed). *)
Theorem C18_long_name_refused : forall v w s S D,
  width_ok w -> 0 <= v < 256 ^ w -> In s [0; 1] -> len S <= 255 -> len D <= 255 ->
  251 <= len S \/ 251 <= len D ->
  proxy_put_request (v, w) S D = Err EValue /\
  directory_listing_request S D = Err EValue /\
  directory_listing_response s S D = Err EValue.
Proof. exact long_name_refused. Qed.
Print Assumptions C18_long_name_refused.

(* the other six kinds have fields of at most 17 octets and never meet the limit *)
Theorem C18_fixed_kinds_fit : forall sw sv qw qv cc dc fs b rc al,
  (sw <= 8)%nat -> (qw <= 8)%nat ->
  len (originating_id_fields sw sv qw qv) <= 17 /\ len (put_response_fields cc dc fs) = 1 /\
  len (closure_fields b) = 1 /\ len (transmission_mode_fields b) = 1 /\
  len (dir_options_fields rc al) = 1.
Proof. exact fixed_kinds_fit. Qed.
Print Assumptions C18_fixed_kinds_fit.

Example C18_name_length_boundary :
  is_ok (proxy_put_request (1, 1) (repeat 65 246) []) = true /\
  proxy_put_request (1, 1) (repeat 65 247) [] = Err EValue /\
  is_ok (directory_listing_request (repeat 65 248) []) = true /\
  directory_listing_request (repeat 65 249) [] = Err EValue /\
  is_ok (directory_listing_response 1 (repeat 65 247) []) = true /\
  directory_listing_response 1 (repeat 65 248) [] = Err EValue.
Proof. exact put_request_boundary. Qed.

(* ---------------- C10 for this slice: decode path and parsers are total ---------------- *)
Theorem C18_decode_total : forall d, wf_bytes d -> ok_or_documented (decode_reserved d).
Proof. exact decode_reserved_total. Qed.
Print Assumptions C18_decode_total.

Theorem C18_parsers_total : forall d r, decode_reserved d = Ok (Some r) ->
  ok_or_documented (get_originating_transaction_id r) /\
  ok_or_documented (get_proxy_put_request_params r) /\
  ok_or_documented (get_proxy_put_response_params r) /\
  ok_or_documented (get_proxy_closure_requested r) /\
  ok_or_documented (get_proxy_transmission_mode r) /\
  ok_or_documented (get_dir_listing_request_params r) /\
  ok_or_documented (get_dir_listing_response_params r) /\
  ok_or_documented (get_dir_listing_options r).
Proof. exact decoded_parsers_total. Qed.
Print Assumptions C18_parsers_total.

(* ---------------- non-vacuity ---------------- *)
(* proxy put request: 2-octet destination ID 0x0102, source "a", destination "bc" *)
Example C18_ex_put_request :
  width_ok 2 /\ 0 <= 258 < 256 ^ 2 /\
  (do r <- proxy_put_request (258, 2) [97] [98; 99]; tlv_pack r) =
    Ok [2; 13; 99; 102; 100; 112; 0; 2; 1; 2; 1; 97; 2; 98; 99] /\
  (do o <- decode_reserved [2; 13; 99; 102; 100; 112; 0; 2; 1; 2; 1; 97; 2; 98; 99; 7];
   match o with Some r => get_proxy_put_request_params r | None => Ok None end) =
    Ok (Some ((258, 2), [97], [98; 99])).
Proof. repeat split; try (left; reflexivity) || (right; left; reflexivity) || vm_compute; try reflexivity; try discriminate. Qed.
(* originating transaction ID with an 8-octet source ID and a 4-octet sequence number *)
Example C18_ex_originating :
  (do r <- originating_transaction_id (2 ^ 64 - 1, 8) (7, 4); tlv_pack r) =
    Ok [2; 18; 99; 102; 100; 112; 10; 115; 255; 255; 255; 255; 255; 255; 255; 255; 0; 0; 0; 7].
Proof. vm_compute. reflexivity. Qed.
(* octets that are not valid UTF-8: answered False, not an exception *)
Example C18_ex_not_text :
  is_reserved_cfdp_message {| tlv_type := 2; tlv_value := [255; 254; 0; 0; 0] |} = Ok false /\
  decode_reserved [2; 5; 255; 254; 0; 0; 0] = Ok None.
Proof. split; vm_compute; reflexivity. Qed.
