(* C18 — placeholder while the model is being tied; replaced by the full statements *)
From Coq Require Import ZArith List.
From SP Require Import Base.Result Base.Bytes Model.Lv Model.Tlv Model.MsgToUser.
Open Scope Z_scope.
Theorem C18_marker : CFDP_MARKER = (99 :: 102 :: 100 :: 112 :: nil).
Proof. reflexivity. Qed.
Print Assumptions C18_marker.
