(* C06, part C — the NAK PDU is encoded exactly per 727.0-B-5 and round-trips.
   Statements only; every proof is `exact <lemma>` from Proofs/NakProofs.v.

   nak_valid c q (Spec/PduCSpec.v): valid header configuration c (C05: any ID / sequence-number
   widths, CRC on/off, normal/large file flag, both modes), start and end of scope and every
   offset of every segment request within the 32-bit (64-bit with the large-file flag) range,
   a list of segment requests of ANY length whose encoding fits the 16-bit data-field length.
   nak_layout c q: header (direction toward sender) ++ [8] ++ be w start ++ be w end ++
   (be w s_i ++ be w e_i)* ++ [CRC-16 of all before iff CRC flag], w = 4 | 8.
   nak_pdu_of c q: the object NakPdu(c, start, end, segment_requests) builds. *)
From Coq Require Import ZArith List Bool.
From SP Require Import Base.Result Base.Bytes Base.Crc16 Model.PduHeader Spec.PduHeaderSpec
  Model.FileDirective Model.Nak Spec.PduCSpec Proofs.NakProofs.
From SP Require Import Proofs.RoundtripLimits.
Import ListNotations.
Open Scope Z_scope.

(* constructor: the PDU for (c, q); the caller's PduConfig is returned unchanged (D-C11-3 repaired) *)
Theorem C06_nak_new : forall c q, nak_valid c q ->
  nak_new c (np_start q) (np_end q) (np_segs q) = Ok (nak_pdu_of c q, c).
Proof. exact nak_new_ok. Qed.
Print Assumptions C06_nak_new.

(* pack = the layout of the standard, CRC trailer included *)
Theorem C06_nak_pack_layout : forall c q, nak_valid c q -> nak_pack (nak_pdu_of c q) = Ok (nak_layout c q).
Proof. exact nak_pack_layout. Qed.
Print Assumptions C06_nak_pack_layout.

(* data-field length = octets after the header; packet_len = number of packed octets *)
Theorem C06_nak_data_field_len : forall c q, nak_valid c q ->
  let p := nak_pdu_of c q in
  h_dlen (nk_hdr p) = len (nak_layout c q) - hdr_header_len (nk_hdr p) /\
  nak_packet_len p = len (nak_layout c q) /\
  h_dlen (nk_hdr p) = len (nak_body c q) + (if cf_crc c =? 1 then 2 else 0).
Proof. exact nak_data_field_len. Qed.
Print Assumptions C06_nak_data_field_len.

(* decode (encode p) = p : scope and segment requests exactly, for lists of any length, with and
   without CRC trailer (D-C06-5 repaired), 32- and 64-bit offsets *)
Theorem C06_nak_unpack_pack : forall c q, nak_valid c q -> nak_unpack (nak_layout c q) = Ok (nak_pdu_of c q).
Proof. exact nak_unpack_pack. Qed.
Print Assumptions C06_nak_unpack_pack.

(* the property as one chain: construct, pack, decode: same values, equal PDU, identical re-pack,
   reported lengths = packed length *)
Theorem C06_nak_roundtrip : forall c q, nak_valid c q ->
  exists p b p',
    nak_new c (np_start q) (np_end q) (np_segs q) = Ok (p, c) /\ nak_pack p = Ok b /\ b = nak_layout c q /\
    nak_unpack b = Ok p' /\
    nk_start p' = np_start q /\ nk_end p' = np_end q /\ nk_segs p' = np_segs q /\
    nak_eqb p' p = true /\ nak_pack p' = Ok b /\ nak_packet_len p' = len b /\
    h_dlen (nk_hdr p') = len b - hdr_header_len (nk_hdr p').
Proof. exact nak_roundtrip. Qed.
Print Assumptions C06_nak_roundtrip.

(* re-pack for EVERY accepted octet string: whatever the decoder accepts re-packs to exactly the
   buffer it was given, and the reported length is the buffer length *)
Theorem C06_nak_repack : forall d p, wf_bytes d -> nak_unpack d = Ok p ->
  nak_pack p = Ok d /\ nak_packet_len p = len d /\
  h_dlen (nk_hdr p) = len d - hdr_header_len (nk_hdr p) /\ nak_unpack d = Ok p /\ nak_eqb p p = true.
Proof. exact nak_repack. Qed.
Print Assumptions C06_nak_repack.

(* values outside the selected width make packing fail, never truncate *)
Theorem C06_nak_too_large_fails : forall p, flag (cf_large (nk_conf p)) ->
  ~ pair_ok (nak_w (nk_conf p)) (nk_start p, nk_end p) \/
  Exists (fun se => ~ pair_ok (nak_w (nk_conf p)) se) (nk_segs p) ->
  exists err, nak_pack p = Err err.
Proof. exact nak_too_large_fails. Qed.
Print Assumptions C06_nak_too_large_fails.

Theorem C06_nak_too_large_32 : forall p, cf_large (nk_conf p) = 0 ->
  nk_start p >= 2 ^ 32 \/ nk_end p >= 2 ^ 32 \/ Exists (fun se => fst se >= 2 ^ 32 \/ snd se >= 2 ^ 32) (nk_segs p) ->
  exists err, nak_pack p = Err err.
Proof. exact nak_too_large_32. Qed.
Print Assumptions C06_nak_too_large_32.

(* the segment-request loop never runs out of the fuel unpack supplies ("never loops") *)
Theorem C06_nak_fuel_ok : forall (d : bytes) (w : nat) k idx stop acc, (0 < w)%nat -> wf_bytes d ->
  0 <= idx -> stop = idx + 2 * Z.of_nat w * Z.of_nat k -> stop <= len d ->
  nak_unpack_segs (length d + 1) d idx stop (Z.of_nat w) acc <> Err EFuel.
Proof. exact nak_fuel_ok. Qed.
Print Assumptions C06_nak_fuel_ok.

(* get_max_seg_reqs_for_max_packet_size_and_pdu_cfg: the closed form, and its exactness: a NAK PDU
   for configuration c fits into max_packet_size octets iff it has at most that many requests *)
Theorem C06_nak_max_seg_reqs_spec : forall mx c, flag (cf_large c) -> flag (cf_crc c) ->
  nak_max_seg_reqs mx c =
  if mx <? nak_base c then Err EValue else Ok ((mx - nak_base c) / (2 * Z.of_nat (nak_w c))).
Proof. exact nak_max_seg_reqs_spec. Qed.
Print Assumptions C06_nak_max_seg_reqs_spec.

Theorem C06_nak_max_seg_reqs_exact : forall c q mx n, nak_valid c q -> nak_max_seg_reqs mx c = Ok n ->
  0 <= n /\ (Z.of_nat (length (np_segs q)) <= n <-> len (nak_layout c q) <= mx).
Proof. exact nak_max_seg_reqs_exact. Qed.
Print Assumptions C06_nak_max_seg_reqs_exact.

(* non-vacuity: a large-file, CRC-flagged configuration with 2-octet IDs, 4-octet sequence number,
   full-range scope and two segment requests satisfies nak_valid; its layout *)
Example C06_nak_valid_example : nak_valid nak_example_conf nak_example_params.
Proof. exact nak_valid_example. Qed.
Example C06_nak_too_large_example :
  match nak_new (conf_set_large nak_example_conf 0) 0 4294967296 [] with
  | Ok (p, _) => Some (nak_pack p)
  | Err _ => None
  end = Some (Err EValue).
Proof. exact nak_too_large_example. Qed.

(* instances of C06_nak_too_large_fails (end of scope 2^64 with 64-bit fields: struct.error on the
   code, not ValueError - packing fails, nothing truncated) and of C06_nak_too_large_32 (an offset
   2^32 with 32-bit fields: ValueError) *)
Example C06_nak_too_large_fails_example :
  flag (cf_large (nk_conf nak_too_large_p64)) /\
  ~ pair_ok (nak_w (nk_conf nak_too_large_p64)) (nk_start nak_too_large_p64, nk_end nak_too_large_p64) /\
  nak_pack nak_too_large_p64 = Err EStruct.
Proof. exact nak_too_large_fails_example. Qed.
Example C06_nak_too_large_32_example :
  cf_large (nk_conf nak_too_large_p32) = 0 /\
  Exists (fun se => fst se >= 2 ^ 32 \/ snd se >= 2 ^ 32) (nk_segs nak_too_large_p32) /\
  nak_pack nak_too_large_p32 = Err EValue.
Proof. exact nak_too_large_32_example. Qed.
