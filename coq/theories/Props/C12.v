(* C12 — the PDU factory returns the right PDU kind, equal to what was packed.
   Statements only; every proof is `exact <lemma>` from Proofs/FactoryProofs.v.

   factory_ok L k p code E (Proofs/FactoryProofs.v) is the property for ONE packed PDU L that
   was built from an object p of class k (0 file data, 1 EOF, 2 Finished, 3 ACK, 4 Metadata,
   5 NAK, 6 Prompt, 7 Keep Alive):
     exists p', PduFactory.from_raw L = p'              (and from_raw_to_holder holds p')
       /\ p' is an instance of exactly class k /\ (E -> p' == p) /\ p'.pack() = L
       /\ p'.packet_len = |L|
       /\ PduFactory.pdu_type L = the type bit, is_file_directive L, pdu_directive_type L = code.
   The eight theorems quantify over every valid parameter set of the kind and every header
   configuration (all ID / sequence-number widths - the position of the directive octet -, CRC
   on/off, normal/large file flag, both modes); the validity predicates and layouts are those of
   C06 / C07. *)
From Coq Require Import ZArith List Bool.
From SP Require Import Base.Result Base.Bytes Model.PduHeader Spec.PduHeaderSpec Model.FileDirective
  Spec.PduASpec Proofs.EofProofs Proofs.AckProofs Proofs.PromptProofs Proofs.KeepAliveProofs
  Spec.PduBSpec Proofs.FinishedProofs Proofs.MetadataProofs Spec.PduCSpec Proofs.NakProofs
  Model.Factory Proofs.FactoryProofs.
From SP Require Model.FileData Spec.FileDataSpec Proofs.FileDataProofs.
From SP Require Import Proofs.DirectiveProofs Proofs.FactoryExamples.
Import ListNotations.
Open Scope Z_scope.

Theorem C12_factory_from_raw_file_data : forall c q, FileDataSpec.fd_valid c q ->
  factory_ok (FileDataSpec.fd_layout c q) 0 (PFileData (FileDataSpec.fd_pdu_of c q)) None True.
Proof. exact factory_from_raw_file_data. Qed.
Print Assumptions C12_factory_from_raw_file_data.

Theorem C12_factory_from_raw_eof : forall c q, eof_valid c q ->
  factory_ok (eof_layout c q) 1 (PEof (eof_pdu_of c q)) (Some 4) True.
Proof. exact factory_from_raw_eof. Qed.
Print Assumptions C12_factory_from_raw_eof.

(* Finished: equality for every parameter set of the standard (fin_params_std: no fault location
   together with a condition code that does not carry one - such a location is not transmitted) *)
Theorem C12_factory_from_raw_finished : forall c q, fin_valid c q ->
  factory_ok (fin_layout c q) 2 (PFinished (fin_pdu_of c q)) (Some 5) (fin_params_std q).
Proof. exact factory_from_raw_finished. Qed.
Print Assumptions C12_factory_from_raw_finished.

Theorem C12_factory_from_raw_ack : forall c q, ack_valid c q ->
  factory_ok (ack_layout c q) 3 (PAck (ack_pdu_of c q)) (Some 6) True.
Proof. exact factory_from_raw_ack. Qed.
Print Assumptions C12_factory_from_raw_ack.

Theorem C12_factory_from_raw_metadata : forall c q o, md_valid c q o ->
  factory_ok (md_layout c q o) 4 (PMetadata (md_pdu_of c q o)) (Some 7) True.
Proof. exact factory_from_raw_metadata. Qed.
Print Assumptions C12_factory_from_raw_metadata.

Theorem C12_factory_from_raw_nak : forall c q, nak_valid c q ->
  factory_ok (nak_layout c q) 5 (PNak (nak_pdu_of c q)) (Some 8) True.
Proof. exact factory_from_raw_nak. Qed.
Print Assumptions C12_factory_from_raw_nak.

Theorem C12_factory_from_raw_prompt : forall c rr, prompt_valid c rr ->
  factory_ok (prompt_layout c rr) 6 (PPrompt (prompt_pdu_of c rr)) (Some 9) True.
Proof. exact factory_from_raw_prompt. Qed.
Print Assumptions C12_factory_from_raw_prompt.

Theorem C12_factory_from_raw_keep_alive : forall c v, ka_valid c v ->
  factory_ok (ka_layout c v) 7 (PKeepAlive (ka_pdu_of c v)) (Some 12) True.
Proof. exact factory_from_raw_ka. Qed.
Print Assumptions C12_factory_from_raw_keep_alive.

(* the raw-buffer inspectors on ANY packed header / packed file-directive base, for all widths:
   pdu_type is the header's type bit; pdu_directive_type is the octet behind the header (refused
   with ValueError when it is not a member of DirectiveType) *)
Theorem C12_factory_inspectors_type : forall h rest, hdr_valid h ->
  fac_pdu_type (hdr_layout h ++ rest) = Ok (h_type h) /\
  fac_is_file_directive (hdr_layout h ++ rest) = Ok (h_type h =? 0).
Proof. exact (fun h rest V => conj (fac_pdu_type_layout h rest V) (fac_is_file_directive_layout h rest V)). Qed.
Print Assumptions C12_factory_inspectors_type.

Theorem C12_factory_inspectors_directive : forall L f, directive_head L f ->
  fac_pdu_type L = Ok 0 /\ fac_is_file_directive L = Ok true /\
  fac_pdu_directive_type L = (do t <- directive_type_of (fd_type f); Ok (Some t)).
Proof. exact head_inspectors. Qed.
Print Assumptions C12_factory_inspectors_directive.

(* the 8 x 8 accessor table: matching class -> the PDU, every other class -> TypeError; the empty
   holder -> TypeError.  pdu_wf p: the object is one the factory / a constructor produces (its
   stored directive code is its class's; a FileDataPdu has the file-data type bit) *)
Theorem C12_holder_accessor_table : forall p k, pdu_wf p -> 0 <= k <= 7 ->
  holder_to k (Some p) = if k =? pdu_kind p then Ok p else Err EType.
Proof. exact holder_accessor_table. Qed.
Print Assumptions C12_holder_accessor_table.

Theorem C12_holder_empty : forall k, 0 <= k <= 7 -> holder_to k None = Err EType.
Proof. exact holder_empty. Qed.
Print Assumptions C12_holder_empty.

(* packed PDU -> from_raw_to_holder -> to_<class kk>: the PDU for kk = k, TypeError otherwise *)
Theorem C12_factory_holder_table : forall L k p code E kk, factory_ok L k p code E -> 0 <= kk <= 7 ->
  exists p', fac_from_raw_to_holder L = Ok (Some p') /\ pdu_kind p' = k /\
    holder_to kk (Some p') = if kk =? k then Ok p' else Err EType.
Proof. exact factory_holder_table. Qed.
Print Assumptions C12_factory_holder_table.

Theorem C12_holder_inspectors : forall p, pdu_wf p ->
  holder_pdu_type (Some p) = Ok (if pdu_kind p =? 0 then 1 else 0) /\
  holder_is_file_directive (Some p) = Ok (negb (pdu_kind p =? 0)) /\
  holder_pdu_directive_type (Some p) = Ok (kind_code (pdu_kind p)) /\
  holder_pack (Some p) = pdu_pack p /\ holder_packet_len (Some p) = pdu_packet_len p.
Proof. exact holder_inspectors. Qed.
Print Assumptions C12_holder_inspectors.

(* for EVERY buffer the factory accepts (not only packed PDUs): the returned object is a
   well-formed instance of the class the octets denote (type bit / directive octet), and the
   accessor table applies to the holder the factory fills *)
Theorem C12_factory_output_wf : forall d p, wf_bytes d -> fac_from_raw d = Ok (Some p) -> pdu_wf p.
Proof. exact factory_output_wf. Qed.
Print Assumptions C12_factory_output_wf.

Theorem C12_factory_kind_matches : forall d p, wf_bytes d -> fac_from_raw d = Ok (Some p) ->
  fac_is_file_directive d = Ok (negb (pdu_kind p =? 0)) /\
  fac_pdu_directive_type d = Ok (kind_code (pdu_kind p)).
Proof. exact factory_kind_matches. Qed.
Print Assumptions C12_factory_kind_matches.

Theorem C12_factory_holder_table_any : forall d p k, wf_bytes d -> fac_from_raw_to_holder d = Ok (Some p) ->
  0 <= k <= 7 -> holder_to k (Some p) = if k =? pdu_kind p then Ok p else Err EType.
Proof. exact factory_holder_table_any. Qed.
Print Assumptions C12_factory_holder_table_any.

(* non-vacuity: the example parameter sets of C06 / C07 satisfy the hypotheses *)
Example C12_nak_example : nak_valid nak_example_conf nak_example_params.
Proof. exact nak_valid_example. Qed.
Example C12_file_data_example : FileDataSpec.fd_valid FileDataProofs.fd_example_conf FileDataProofs.fd_example_params.
Proof. exact (proj1 FileDataProofs.fd_valid_example). Qed.
Example C12_eof_example : eof_valid eof_example_conf eof_example_params.
Proof. exact eof_valid_example. Qed.
Example C12_finished_example : fin_valid (ex_conf 1 0) ex_fin /\ fin_params_std ex_fin.
Proof. exact fin_valid_example. Qed.
Example C12_ack_example : ack_valid ack_example_conf ack_example_params.
Proof. exact ack_valid_example. Qed.
Example C12_metadata_example : md_valid (ex_conf 1 1) ex_md ex_opts.
Proof. exact md_valid_example. Qed.
Example C12_prompt_example : prompt_valid prompt_example_conf 1.
Proof. exact prompt_valid_example. Qed.
Example C12_keep_alive_example : ka_valid ka_example_conf 72623859790382856.
Proof. exact ka_valid_example. Qed.
(* directive_head: a packed EOF PDU followed by two foreign octets; pdu_wf and the accessor table *)
Example C12_directive_head_example :
  directive_head (eof_layout eof_example_conf eof_example_params ++ [165; 90])
                 (directive_fdir eof_example_conf 0 4 (eof_params_layout eof_example_conf eof_example_params)) /\
  fac_pdu_directive_type (eof_layout eof_example_conf eof_example_params ++ [165; 90]) = Ok (Some 4).
Proof. exact directive_head_example. Qed.
Example C12_pdu_wf_example :
  pdu_wf (PEof (eof_pdu_of eof_example_conf eof_example_params)) /\
  holder_to 1 (Some (PEof (eof_pdu_of eof_example_conf eof_example_params))) =
    Ok (PEof (eof_pdu_of eof_example_conf eof_example_params)) /\
  holder_to 2 (Some (PEof (eof_pdu_of eof_example_conf eof_example_params))) = Err EType.
Proof. exact pdu_wf_example. Qed.
