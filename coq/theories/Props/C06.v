(* C06 — every CFDP file-directive PDU is encoded exactly per 727.0-B-5 and round-trips.
   The theorems are stated per directive kind in Props/C06_a.v (EOF, ACK, Prompt, Keep Alive),
   Props/C06_b.v (Finished, Metadata) and Props/C06_c.v (NAK); the check compiles all of them. *)
