(* C16 — verification tracker (statements follow) *)
From Coq Require Import ZArith List.
From SP Require Import Base.Result Model.Verificator Spec.VerificatorSpec.
