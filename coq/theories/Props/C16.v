(* C16 — the PUS verification tracker follows its documented state machine for every
   history.  Statements only; proofs are `exact <lemma>` from Proofs/VerificatorProofs.v
   (and Proofs/VerificatorBase.v).  Spec = Spec/VerificatorSpec.v: a total map
   request id -> status, and the transition table of the class documentation. *)
From Coq Require Import ZArith List Bool.
From SP Require Model.ReqId Model.Srv1.
From SP Require Import Base.Result Base.Bytes Model.SpacePacket Model.Verificator
  Spec.SpacePacketSpec Spec.VerificatorSpec Proofs.VerificatorBase Proofs.VerificatorProofs
  Proofs.VerificatorKept Proofs.VerificatorSrv1.
Import ListNotations.
Open Scope Z_scope.

(* one report on one status = one row of the documented table (all 8 subservices, all statuses) *)
Theorem C16_check_subservice_table : forall r s,
  1 <= rep_sub r <= 8 -> (rep_sub r = 5 \/ rep_sub r = 6 -> rep_step r <> None) ->
  exists s' c, check_subservice r s = (s', Ok c) /\
    table (rep_sub r) (match rep_step r with Some v => v | None => 0 end) (abs_st s) = Some (abs_st s', c).
Proof. exact check_subservice_table. Qed.
Print Assumptions C16_check_subservice_table.

(* every call: same answer as the documented machine, same map afterwards, keys stay unique *)
Theorem C16_tracker_refines_step : forall d o, uniq d -> op_in_spec o ->
  uniq (fst (vstep d o)) /\
  abs_out (snd (vstep d o)) = snd (spec_step (abs_dict d) (abs_op o)) /\
  forall k, abs_dict (fst (vstep d o)) k = fst (spec_step (abs_dict d) (abs_op o)) k.
Proof. exact tracker_refines_step. Qed.
Print Assumptions C16_tracker_refines_step.

(* every history over add_tc / add_tm / remove_entry / remove_completed_entries *)
Theorem C16_tracker_refines : forall ops d, uniq d -> Forall op_in_spec ops ->
  map (fun x => abs_out (fst x)) (vrun d ops) = fst (spec_run (abs_dict d) (map abs_op ops)) /\
  (forall k, abs_dict (vfinal d ops) k = snd (spec_run (abs_dict d) (map abs_op ops)) k) /\
  uniq (vfinal d ops).
Proof. exact tracker_refines. Qed.
Print Assumptions C16_tracker_refines.

Theorem C16_uniq_NoDup : forall d, uniq d <-> NoDup (map fst d).
Proof. exact uniq_NoDup. Qed.
Print Assumptions C16_uniq_NoDup.

Theorem C16_unknown_id_none : forall d r,
  lookup (reqid_as_u32 (rep_id r)) d = None -> add_tm d r = (d, Ok None).
Proof. exact unknown_id_none. Qed.
Print Assumptions C16_unknown_id_none.

Theorem C16_duplicate_refused : forall d h,
  (lookup (key_of_hdr h) d <> None -> add_tc d h = (d, false)) /\
  (lookup (key_of_hdr h) d = None -> add_tc d h = (d ++ [(key_of_hdr h, vstatus_init)], true)).
Proof. exact duplicate_refused. Qed.
Print Assumptions C16_duplicate_refused.

Theorem C16_isolation : forall d r, let d' := fst (add_tm d r) in
  map fst d' = map fst d /\
  forall k, k <> reqid_as_u32 (rep_id r) -> lookup k d' = lookup k d.
Proof. exact isolation. Qed.
Print Assumptions C16_isolation.

(* a report touches only its own field of the status *)
Theorem C16_own_field : forall r s s' x, check_subservice r s = (s', x) ->
  (rep_sub r <> 1 /\ rep_sub r <> 2 -> acc s' = acc s) /\
  (rep_sub r <> 3 /\ rep_sub r <> 4 -> sta s' = sta s) /\
  (rep_sub r <> 5 /\ rep_sub r <> 6 -> step s' = step s /\ steps s' = steps s) /\
  (rep_sub r <> 7 /\ rep_sub r <> 8 -> comp s' = comp s).
Proof. exact own_field_1. Qed.
Print Assumptions C16_own_field.

(* a failed step is never overwritten: along any history in which the entry stays registered *)
Theorem C16_failed_step_sticky : forall ops d k s,
  uniq d -> lookup k d = Some s -> step s = FAILURE -> always_present k d ops ->
  exists s', lookup k (vfinal d ops) = Some s' /\ step s' = FAILURE.
Proof. exact failed_step_sticky. Qed.
Print Assumptions C16_failed_step_sticky.

Theorem C16_completed_flag_iff : forall d r d' s' c,
  add_tm d r = (d', Ok (Some (s', c))) ->
  (c = true <-> rep_sub r = 2 \/ rep_sub r = 4 \/ rep_sub r = 6 \/ rep_sub r = 7 \/ rep_sub r = 8).
Proof. exact completed_flag_iff. Qed.
Print Assumptions C16_completed_flag_iff.

(* 'all verifications received' is set exactly under the documented condition ... *)
Theorem C16_all_recvd_iff : forall d r d' s s' c,
  lookup (reqid_as_u32 (rep_id r)) d = Some s ->
  add_tm d r = (d', Ok (Some (s', c))) ->
  lookup (reqid_as_u32 (rep_id r)) d' = Some s' /\
  (recvd s' = 1 <-> recvd s = 1 \/ finished_by (rep_sub r) s).
Proof. exact all_recvd_iff. Qed.
Print Assumptions C16_all_recvd_iff.

(* ... and never reverts *)
Theorem C16_all_recvd_monotone : forall ops d k s,
  uniq d -> lookup k d = Some s -> recvd s = 1 -> always_present k d ops ->
  exists s', lookup k (vfinal d ops) = Some s' /\ recvd s' = 1.
Proof. exact all_recvd_monotone. Qed.
Print Assumptions C16_all_recvd_monotone.

Theorem C16_step_list_appends : forall d r d' s s' c,
  lookup (reqid_as_u32 (rep_id r)) d = Some s ->
  add_tm d r = (d', Ok (Some (s', c))) ->
  steps s' = steps s ++
    match rep_step r with
    | Some v => if (rep_sub r =? 5) || (rep_sub r =? 6) then [v] else []
    | None => []
    end.
Proof. exact step_list_appends. Qed.
Print Assumptions C16_step_list_appends.

Theorem C16_remove_completed_exact : forall d k, uniq d ->
  lookup k (remove_completed_entries d) =
  match lookup k d with Some s => if recvd s =? 0 then Some s else None | None => None end.
Proof. exact remove_completed_exact. Qed.
Print Assumptions C16_remove_completed_exact.

Theorem C16_remove_entry_exact : forall d r, uniq d -> let k := reqid_as_u32 r in
  snd (remove_entry d r) = mem k d /\
  lookup k (fst (remove_entry d r)) = None /\
  forall k', k' <> k -> lookup k' (fst (remove_entry d r)) = lookup k' d.
Proof. exact remove_entry_exact. Qed.
Print Assumptions C16_remove_entry_exact.

(* everything reachable has unique keys and fields in range *)
Theorem C16_reachable_valid : forall ops d, uniq d -> all_valid d ->
  uniq (vfinal d ops) /\ all_valid (vfinal d ops).
Proof. exact reachable_valid. Qed.
Print Assumptions C16_reachable_valid.

(* add_tm raises nothing but the documented ValueError (subservice outside 1..8), state unchanged *)
Theorem C16_add_tm_errors_documented : forall d r e,
  (rep_sub r = 5 \/ rep_sub r = 6 -> rep_step r <> None) ->
  snd (add_tm d r) = Err e -> e = EValue /\ ~ (1 <= rep_sub r <= 8) /\ fst (add_tm d r) = d.
Proof. exact add_tm_errors_documented. Qed.
Print Assumptions C16_add_tm_errors_documented.

(* ---- the exception class of every raising transition (abs_out maps every raise to the
   specification's single error output): a call raises only in add_tm for a REGISTERED
   telecommand, and then ValueError for a subservice outside 1..8 (dictionary unchanged), or
   AttributeError for a step report without step id (excluded by op_in_spec; the status object has
   been mutated as far as the code got) ---- *)
Theorem C16_raise_class : forall d o e,
  snd (vstep d o) = ORaise e ->
  exists r s, o = AddTm r /\ lookup (reqid_as_u32 (rep_id r)) d = Some s /\
    ((e = EValue /\ ~ (1 <= rep_sub r <= 8) /\ fst (vstep d o) = d) \/
     (e = EAttribute /\ (rep_sub r = 5 \/ rep_sub r = 6) /\ rep_step r = None /\
      fst (vstep d o) = replace (reqid_as_u32 (rep_id r)) (fst (check_subservice r s)) d)).
Proof. exact vstep_raise_class. Qed.
Print Assumptions C16_raise_class.

(* ---- link to C15: the reports the tracker is fed are Service1Tm objects.
   report_of s = (tc_req_id, subservice, step_id.val if there is a step id): what add_tm reads.
   Every object returned by Service1Tm.unpack / from_tm, by the constructor with verification
   parameters and hence by create_*_tm carries a step id when it is a step report (subservice
   5 / 6): `op_in_spec` excludes nothing these entry points produce. ---- *)
Theorem C16_report_key : forall r, reqid_as_u32 (reqid_of r) = ReqId.reqid_as_u32 r.
Proof. exact reqid_of_key. Qed.
Print Assumptions C16_report_key.
Theorem C16_unpacked_report_in_spec : forall data cfg s,
  Srv1.srv1_unpack data cfg = Ok s -> op_in_spec (AddTm (report_of s)).
Proof. exact srv1_unpack_in_spec. Qed.
Print Assumptions C16_unpacked_report_in_spec.
Theorem C16_from_tm_report_in_spec : forall t cfg s,
  Srv1.srv1_from_tm t cfg = Ok s -> op_in_spec (AddTm (report_of s)).
Proof. exact srv1_from_tm_in_spec. Qed.
Print Assumptions C16_from_tm_report_in_spec.
Theorem C16_constructed_report_in_spec : forall apid k ts v sc ver ref dest s,
  Srv1.srv1_new apid k ts (Some v) sc ver ref dest = Ok s -> op_in_spec (AddTm (report_of s)).
Proof. exact srv1_new_in_spec. Qed.
Print Assumptions C16_constructed_report_in_spec.
Theorem C16_created_report_in_spec : forall k apid tc_hdr step fn ts s,
  Srv1.srv1_create k apid tc_hdr step fn ts = Ok s -> op_in_spec (AddTm (report_of s)).
Proof. exact srv1_create_in_spec. Qed.
Print Assumptions C16_created_report_in_spec.

(* the one way to a step report WITHOUT step id: the constructor called without verification
   parameters (accepted).  Such an object cannot be packed and decoded again, is outside
   op_in_spec, and add_tm raises AttributeError for it with the step field already set.  Same on
   the implementation (replayed): Service1Tm(apid=5, subservice=TM_STEP_SUCCESS, timestamp=b"")
   with tc_req_id set to a registered telecommand: add_tm -> AttributeError. *)
Theorem C16_step_report_without_step_id :
  let h := {| ver := 0; ptype := 1; shf := 1; apid := 5; sflags := 3; scount := 7; dlen := 0 |} in
  exists s, Srv1.srv1_new 5 5 [] None 0 0 0 0 = Ok s /\
    ~ op_in_spec (AddTm (report_of s)) /\
    (do p <- Srv1.srv1_pack s; Srv1.srv1_unpack (fst p) {| Srv1.up_ts_len := 0; Srv1.up_step := 1; Srv1.up_err := 1 |})
      = Err ETooShort /\
    let r := {| rep_id := reqid_from_sp_header h; rep_sub := rep_sub (report_of s); rep_step := rep_step (report_of s) |} in
    snd (add_tm (fst (add_tc [] h)) r) = Err EAttribute /\
    map (fun e => step (snd e)) (fst (add_tm (fst (add_tc [] h)) r)) = [SUCCESS].
Proof. exact step_report_without_step_id. Qed.
Print Assumptions C16_step_report_without_step_id.

(* ---- always_present (hypothesis of C16_failed_step_sticky / C16_all_recvd_monotone) holds for
   every history without a removal of that telecommand ---- *)
Theorem C16_always_present_no_removal : forall k ops d, uniq d -> Forall (never_removes k) ops ->
  lookup k d <> None -> always_present k d ops.
Proof. exact always_present_no_removal. Qed.
Print Assumptions C16_always_present_no_removal.

(* non-vacuity of the hypotheses of C16_tracker_refines / _failed_step_sticky /
   _all_recvd_monotone: two telecommands interleaved, a failed step, then a successful step, a
   duplicate registration, completion, reports for and removal of the other telecommand *)
Example C16_refinement_hyps_nonvacuous :
  let h1 := {| ver := 0; ptype := 1; shf := 1; apid := 5; sflags := 3; scount := 7; dlen := 0 |} in
  let h2 := {| ver := 0; ptype := 1; shf := 1; apid := 5; sflags := 3; scount := 8; dlen := 0 |} in
  let rp h sub st := AddTm {| rep_id := reqid_from_sp_header h; rep_sub := sub; rep_step := st |} in
  let d0 := vfinal [] [AddTc h1; AddTc h2; rp h1 1 None; rp h1 3 None; rp h1 6 (Some 2)] in
  let ops := [rp h2 1 None; rp h1 5 (Some 3); AddTc h1; rp h2 4 None; rp h1 7 None;
              RemoveEntry (reqid_from_sp_header h2)] in
  let k := key_of_hdr h1 in
  uniq d0 /\ Forall op_in_spec ops /\ Forall (never_removes k) ops /\ always_present k d0 ops /\
  (exists s, lookup k d0 = Some s /\ step s = FAILURE /\ recvd s = 1) /\
  (exists s', lookup k (vfinal d0 ops) = Some s' /\ step s' = FAILURE /\ steps s' = [2; 3] /\ recvd s' = 1) /\
  lookup (key_of_hdr h2) (vfinal d0 ops) = None.
Proof. exact refinement_hyps_example. Qed.

(* the dictionary key is the request id's 32-bit value: version | packet id | sequence control *)
Theorem C16_key_of_hdr_arith : forall h, sph_valid h ->
  key_of_hdr h = sph_word0 h * 65536 + sph_word1 h /\ 0 <= key_of_hdr h < 2 ^ 32.
Proof. exact key_of_hdr_arith. Qed.
Print Assumptions C16_key_of_hdr_arith.

Theorem C16_key_of_hdr_inj : forall h1 h2, sph_valid h1 -> sph_valid h2 -> key_of_hdr h1 = key_of_hdr h2 ->
  ver h1 = ver h2 /\ ptype h1 = ptype h2 /\ shf h1 = shf h2 /\ apid h1 = apid h2 /\
  sflags h1 = sflags h2 /\ scount h1 = scount h2.
Proof. exact key_of_hdr_inj. Qed.
Print Assumptions C16_key_of_hdr_inj.

(* non-vacuity: the nominal chain acceptance, start, step, completion, then removal *)
Example C16_nominal_chain :
  let h := {| ver := 0; ptype := 1; shf := 1; apid := 5; sflags := 3; scount := 7; dlen := 0 |} in
  let q := reqid_from_sp_header h in
  let rp sub st := AddTm {| rep_id := q; rep_sub := sub; rep_step := st |} in
  map fst (vrun [] [AddTc h; rp 1 None; rp 3 None; rp 5 (Some 1); rp 7 None; RemoveCompleted]) =
  [OBool true;
   OResult {| recvd := 0; acc := 1; sta := -1; step := -1; steps := []; comp := -1 |} false;
   OResult {| recvd := 0; acc := 1; sta := 1; step := -1; steps := []; comp := -1 |} false;
   OResult {| recvd := 0; acc := 1; sta := 1; step := 1; steps := [1]; comp := -1 |} false;
   OResult {| recvd := 1; acc := 1; sta := 1; step := 1; steps := [1]; comp := 1 |} true;
   ONone] /\
  vfinal [] [AddTc h; rp 1 None; rp 3 None; rp 5 (Some 1); rp 7 None; RemoveCompleted] = [].
Proof. exact nominal_chain. Qed.

(* ---- answers kept by the caller, caller-side edits (Model.Verificator.hrun) ---- *)

(* the history layer adds nothing to the tracker: observations and final dictionary are vrun's *)
Theorem C16_hrun_obs_vrun : forall ops d ks, fst (fst (hrun d ks (map HOp ops))) = vrun d ops.
Proof. exact hrun_obs_vrun. Qed.
Print Assumptions C16_hrun_obs_vrun.

Theorem C16_hrun_final_dict : forall ops d ks, snd (fst (hrun d ks (map HOp ops))) = vfinal d ops.
Proof. exact hrun_final_dict. Qed.
Print Assumptions C16_hrun_final_dict.

(* the caller editing a telecommand object it registered is invisible to the tracker *)
Theorem C16_hrun_caller_edit : forall d ks r,
  fst (fst (hrun d ks (HCallerEdit :: r))) = (ONone, d) :: fst (fst (hrun d (map (refresh d) ks) r)) /\
  snd (fst (hrun d ks (HCallerEdit :: r))) = snd (fst (hrun d (map (refresh d) ks) r)).
Proof. exact hrun_caller_edit. Qed.
Print Assumptions C16_hrun_caller_edit.

(* the completed flag of an answer is never rewritten by a later call *)
Theorem C16_kept_completed_stable : forall ops d ks,
  exists n, map k_completed (snd (hrun d ks ops)) = map k_completed ks ++ n.
Proof. exact kept_completed_stable. Qed.
Print Assumptions C16_kept_completed_stable.

(* an answer whose status is still the dictionary's object reads the dictionary's current status *)
Theorem C16_kept_live_reads_dictionary : forall ops d ks, Forall (reads d) ks ->
  Forall (reads (snd (fst (hrun d ks ops)))) (snd (hrun d ks ops)).
Proof. exact kept_live_reads_dictionary. Qed.
Print Assumptions C16_kept_live_reads_dictionary.
