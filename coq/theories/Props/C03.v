(* placeholder *)
