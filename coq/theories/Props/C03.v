(* C03 — PUS-C telemetry encode/decode is exact and inverse for ANY timestamp length.
   Statements only; proofs are `exact <lemma>` from Proofs/PusTmProofs.v.
   tm_layout (Spec/PusSpec.v): CCSDS primary header (type TM, secondary header present,
   unsegmented, data length = total - 7), [0x20+time-ref; service; subservice; msg counter hi; lo;
   destination hi; lo], timestamp, source data, CRC-16/CCITT-FALSE. *)
From Coq Require Import ZArith List Lia.
From SP Require Import Base.Result Base.Bytes Base.Crc16 Model.SpacePacket Spec.SpacePacketSpec
  Model.PusTc Model.PusTm Spec.PusSpec Proofs.PusTmProofs Model.PusTmHist Proofs.PusHeaderRefusal Proofs.PusAltCtor.
Import ListNotations.
Open Scope Z_scope.

Theorem C03_pack_layout : forall service subservice apid seq msgcnt ref dest version stamp src,
  tm_args_valid service subservice apid seq msgcnt ref dest version stamp src ->
  exists t t', tm_new service subservice stamp src apid seq msgcnt ref dest version = Ok t /\
    tm_pack t = Ok (tm_layout service subservice apid seq msgcnt ref dest version stamp src, t') /\
    tm_sph t' = tm_sph t /\ tm_sec t' = tm_sec t /\ tm_src t' = tm_src t /\
    tm_packet_len t = len (tm_layout service subservice apid seq msgcnt ref dest version stamp src) /\
    dlen (tm_sph t) = len (tm_layout service subservice apid seq msgcnt ref dest version stamp src) - 7.
Proof. exact tm_pack_layout. Qed.
Print Assumptions C03_pack_layout.

(* for every timestamp (any length, the decoder being handed that length) and any suffix *)
Theorem C03_roundtrip : forall service subservice apid seq msgcnt ref dest version stamp src rest,
  tm_args_valid service subservice apid seq msgcnt ref dest version stamp src -> wf_bytes rest ->
  exists t p t' u,
    tm_new service subservice stamp src apid seq msgcnt ref dest version = Ok t /\
    tm_pack t = Ok (p, t') /\
    p = tm_layout service subservice apid seq msgcnt ref dest version stamp src /\
    tm_unpack (p ++ rest) (len stamp) = Ok u /\
    tm_sph u = tm_sph t /\ tm_sec u = tm_sec t /\ tm_src u = tm_src t /\
    tm_eqb u t = true /\ tm_eqb t u = true /\
    (exists u', tm_pack u = Ok (p, u')) /\
    tm_to_space_packet_pack t = Ok p /\
    check_pus_crc p = true /\
    tm_packet_len u = len p.
Proof. exact tm_roundtrip. Qed.
Print Assumptions C03_roundtrip.

Theorem C03_unpack_spec : forall d ts, wf_bytes d -> 0 <= ts -> tm_unpack d ts = tm_decode_spec d ts.
Proof. exact tm_unpack_spec. Qed.
Print Assumptions C03_unpack_spec.

Theorem C03_accept_inv : forall d ts t, wf_bytes d -> 0 <= ts -> tm_unpack d ts = Ok t ->
  let n := sph_packet_len (tm_sph t) in
  15 + ts <= n <= len d /\ crc16 (firstn (Z.to_nat n) d) = 0 /\
  sph_unpack d = Ok (tm_sph t) /\ tms_stamp (tm_sec t) = slice d 13 (13 + ts) /\
  tm_src t = slice d (13 + ts) (n - 2) /\ tm_crc t = Some (slice d (n - 2) n).
Proof. exact tm_accept_inv. Qed.
Print Assumptions C03_accept_inv.

(* a declared length too small for header, timestamp and CRC is rejected *)
Theorem C03_rejects_small_declared_length : forall d ts, wf_bytes d -> 0 <= ts -> (6 <= length d)%nat ->
  (forall h, sph_unpack d = Ok h -> dlen h + 7 < 6 + 7 + ts + 2) ->
  exists e, tm_unpack d ts = Err e /\ documented e = true.
Proof. exact tm_unpack_rejects_small_decl. Qed.
Print Assumptions C03_rejects_small_declared_length.

Theorem C03_new_refuses : forall service subservice apid seq msgcnt ref dest version stamp src,
  ~ (0 <= service < 256 /\ 0 <= subservice < 256 /\ 0 <= apid <= 2047 /\ 0 <= seq <= 16383 /\
     0 <= msgcnt < 65536 /\ len stamp + len src <= 65527) ->
  tm_new service subservice stamp src apid seq msgcnt ref dest version = Err EValue.
Proof. exact tm_new_refuses. Qed.
Print Assumptions C03_new_refuses.

(* the service-17 wrapper is PusTm with service 17.
   DEFINITIONAL: this is a modelling assumption, not a derived fact.  Service17Tm
   (spacepackets/ecss/pus_17_test.py) holds a PusTm and delegates pack / unpack / the field
   accessors to it; the model therefore DEFINES srv17_new / srv17_pack / srv17_unpack as the PusTm
   functions with service 17, and the theorem below only unfolds those definitions.  That the real
   wrapper behaves like that is established by the correspondence check (family 6, the s17 ops),
   not by this theorem. *)
Theorem C03_srv17_is_tm : forall apid subservice stamp ssc src version ref dest,
  srv17_new apid subservice stamp ssc src version ref dest =
    tm_new 17 subservice stamp src apid ssc 0 ref dest version /\
  srv17_pack = tm_pack /\ srv17_unpack = tm_unpack.
Proof. exact srv17_is_tm. Qed.
Print Assumptions C03_srv17_is_tm.

(* a primary-header field pushed out of range through the header object the telemetry packet hands
   out (tm.space_packet_header.seq_count = 20000; no setter validates): every serialisation route
   -- pack(), pack(recalc_crc=False), calc_crc(), to_space_packet().pack() -- refuses with ValueError,
   nothing is encoded (C01's refusal clause seen through PusTm), and on the live object nothing changes *)
Theorem C03_header_out_of_range_refused : forall t, ~ sph_in_range (tm_sph t) ->
  tm_pack t = Err EValue /\ tm_pack_norecalc t = Err EValue /\ tm_calc_crc t = Err EValue /\
  tm_to_space_packet_pack t = Err EValue /\ tm_view t = Err EValue.
Proof. exact tm_header_out_of_range_refused. Qed.
Print Assumptions C03_header_out_of_range_refused.
Theorem C03_live_header_out_of_range_refused : forall t0 t o,
  ~ sph_in_range (tm_sph t) -> tmx_serialises o -> tmx_step t0 t o = (t, Err EValue).
Proof. exact tmx_header_out_of_range_refused. Qed.
Print Assumptions C03_live_header_out_of_range_refused.

Example C03_args_valid_inhabited :
  tm_args_valid 17 2 2047 16383 65535 15 65535 7 [1; 2; 3; 4; 5; 6; 7] [9; 255].
Proof. exact tm_valid_example. Qed.

(* non-vacuity of C03_rejects_small_declared_length: 08 dd cb 3d 00 06 2c 48 09 2f 85 a4 2f with
   timestamp length 0 -- length field 6 (declared packet length 13 < 15); refused with ValueError *)
Example C03_small_declared_length_inhabited :
  let d := [8; 221; 203; 61; 0; 6; 44; 72; 9; 47; 133; 164; 47] in
  wf_bytes d /\ 0 <= 0 /\ (6 <= length d)%nat /\
  (forall h, sph_unpack d = Ok h -> dlen h + 7 < 6 + 7 + 0 + 2) /\
  tm_unpack d 0 = Err EValue /\ documented EValue = true.
Proof.
  cbv zeta. split; [repeat constructor; lia|]. split; [lia|].
  split; [cbn; lia|].
  split; [|split; [vm_compute; reflexivity|reflexivity]].
  intros h E. vm_compute in E. injection E as <-. vm_compute. reflexivity.
Qed.

(* ---- alternative construction path PusTm.from_composite_fields ---- *)
Theorem C03_from_composite_is_new : forall service subservice stamp src apid seq msgcnt ref dest version t,
  tm_new service subservice stamp src apid seq msgcnt ref dest version = Ok t ->
  tm_from_composite_fields (tm_sph t) (tm_sec t) (tm_src t) = Ok t.
Proof. exact tm_from_composite_is_new. Qed.
Print Assumptions C03_from_composite_is_new.

Theorem C03_from_composite_refuses_tc : forall h s d,
  ptype h = PT_TC -> tm_from_composite_fields h s d = Err EValue /\ documented EValue = true.
Proof. intros h s d H. split; [exact (tm_from_composite_refuses_tc h s d H)|reflexivity]. Qed.
Print Assumptions C03_from_composite_refuses_tc.

Theorem C03_from_composite_adopts : forall h s d,
  ptype h <> PT_TC ->
  tm_from_composite_fields h s d = Ok {| tm_sph := h; tm_sec := s; tm_src := d; tm_crc := None |}.
Proof. exact tm_from_composite_adopts. Qed.
Print Assumptions C03_from_composite_adopts.

(* the constructor's components handed to from_composite_fields pack to the standard's octets *)
Theorem C03_from_composite_layout : forall service subservice apid seq msgcnt ref dest version stamp src,
  tm_args_valid service subservice apid seq msgcnt ref dest version stamp src ->
  exists t u t', tm_new service subservice stamp src apid seq msgcnt ref dest version = Ok t /\
    tm_from_composite_fields (tm_sph t) (tm_sec t) (tm_src t) = Ok u /\
    tm_pack u = Ok (tm_layout service subservice apid seq msgcnt ref dest version stamp src, t') /\
    tm_packet_len u = len (tm_layout service subservice apid seq msgcnt ref dest version stamp src).
Proof. exact tm_from_composite_layout. Qed.
Print Assumptions C03_from_composite_layout.
