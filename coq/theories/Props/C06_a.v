(* C06, part A — the file-directive PDUs EOF, ACK, Prompt and Keep Alive (and the
   FileDirectivePduBase they share) are encoded exactly per CCSDS 727.0-B-5 and round-trip.
   Statements only; every proof is `exact <lemma>` from Proofs/{FileDirective,Directive,Eof,Ack,
   Prompt,KeepAlive}Proofs.v.

   Spec/PduASpec.v: K_layout c params = header (type 0, the directive's direction, data-field
   length = octets after the header) ++ [directive code] ++ parameter octets ++ [CRC-16 of all
   before] iff the CRC flag is set; K_valid c params = conf_valid c (C05: any ID widths 1/2/4/8,
   any flags, i.e. CRC on/off x normal/large file x both modes) and every parameter in the range
   of its field.  K_pdu_of c params is the object the constructor returns.

   The theorems hold for ALL configurations and parameter values (no bound), CRC included
   (Base/Crc16Facts.crc_residue is used, crc16 stays opaque). *)
From Coq Require Import ZArith List Bool.
From SP Require Import Base.Result Base.Bytes Base.Crc16 Model.PduHeader Spec.PduHeaderSpec
  Model.FileDirective Proofs.FileDirectiveProofs Spec.TlvSpec Model.Tlv Spec.PduASpec Proofs.DirectiveProofs
  Model.Eof Model.Ack Model.Prompt Model.KeepAlive
  Proofs.EofProofs Proofs.AckProofs Proofs.PromptProofs Proofs.KeepAliveProofs.
Import ListNotations.
Open Scope Z_scope.

(* ------------------------------------------------------------------ FileDirectivePduBase *)

(* pack = header layout ++ [directive code] *)
Theorem C06_fdir_pack_layout : forall f, fdir_valid f -> fdir_pack f = Ok (fdir_layout f).
Proof. exact fdir_pack_layout. Qed.
Print Assumptions C06_fdir_pack_layout.

Theorem C06_fdir_unpack_pack : forall f rest, fdir_valid f -> wf_bytes rest ->
  fdir_unpack (fdir_layout f ++ rest) = Ok f.
Proof. exact fdir_unpack_layout. Qed.
Print Assumptions C06_fdir_unpack_pack.

(* every accepted octet string: the decoded base object is valid and its layout is the prefix read *)
Theorem C06_fdir_unpack_inv : forall d f, wf_bytes d -> fdir_unpack d = Ok f ->
  fdir_valid f /\ hdr_unpack d = Ok (fd_hdr f) /\ fdir_header_len f <= len d /\
  fdir_layout f = firstn (Z.to_nat (fdir_header_len f)) d.
Proof. exact fdir_unpack_inv. Qed.
Print Assumptions C06_fdir_unpack_inv.

(* _verify_file_len refuses exactly the sizes that do not fit the field from above
   (before the repair 064a966: 2^32 / 2^64 themselves were accepted) *)
Theorem C06_verify_file_len : forall f v, flag (cf_large (h_conf (fd_hdr f))) ->
  fdir_verify_file_len f v =
  if (if cf_large (h_conf (fd_hdr f)) =? 1 then v >? 2 ^ 64 - 1 else v >? 2 ^ 32 - 1) then Err EValue else Ok tt.
Proof. exact fdir_verify_file_len_spec. Qed.
Print Assumptions C06_verify_file_len.

(* ------------------------------------------------------------------ EOF *)

Theorem C06_eof_new : forall c q, eof_wf c q ->
  eof_new c (ep_checksum q) (ep_size q) (fault_tlv (ep_fault q)) (ep_cc q) = Ok (eof_pdu_of c q, c).
Proof. exact eof_new_ok. Qed.
Print Assumptions C06_eof_new.

Theorem C06_eof_pack_layout : forall c q, eof_valid c q -> eof_pack (eof_pdu_of c q) = Ok (eof_layout c q).
Proof. exact eof_pack_layout. Qed.
Print Assumptions C06_eof_pack_layout.

Theorem C06_eof_data_field_len : forall c q, eof_wf c q ->
  let p := eof_pdu_of c q in
  h_dlen (fd_hdr (eof_fd p)) = len (eof_layout c q) - hdr_header_len (fd_hdr (eof_fd p)) /\
  eof_packet_len p = len (eof_layout c q) /\
  h_dlen (fd_hdr (eof_fd p)) = 6 + Z.of_nat (fss_octets c) + fault_len (ep_fault q) + crc_octets c.
Proof. exact eof_data_field_len. Qed.
Print Assumptions C06_eof_data_field_len.

(* decode (encode ++ anything) = the original object: condition code, checksum, size, fault location *)
Theorem C06_eof_unpack_pack : forall c q rest, eof_valid c q -> wf_bytes rest ->
  eof_unpack (eof_layout c q ++ rest) = Ok (eof_pdu_of c q).
Proof. exact eof_unpack_pack. Qed.
Print Assumptions C06_eof_unpack_pack.

(* construct, pack, decode (any suffix): same parameters, equal PDU, identical re-pack, reported length *)
Theorem C06_eof_roundtrip : forall c q rest, eof_valid c q -> wf_bytes rest ->
  exists p b p',
    eof_new c (ep_checksum q) (ep_size q) (fault_tlv (ep_fault q)) (ep_cc q) = Ok (p, c) /\
    eof_pack p = Ok b /\ b = eof_layout c q /\
    eof_unpack (b ++ rest) = Ok p' /\
    eof_cc p' = ep_cc q /\ eof_checksum p' = ep_checksum q /\ eof_size p' = ep_size q /\
    eof_fault p' = fault_tlv (ep_fault q) /\ p' = p /\
    eof_eqb p' p = Ok true /\ eof_pack p' = Ok b /\ eof_packet_len p' = len b.
Proof. exact eof_roundtrip. Qed.
Print Assumptions C06_eof_roundtrip.

(* a file size outside the 32-bit (64-bit with the large file flag) range: packing fails, no octets *)
Theorem C06_eof_too_large_fails : forall c q, eof_wf c q ->
  ~ (0 <= ep_size q < 256 ^ Z.of_nat (fss_octets c)) -> eof_pack (eof_pdu_of c q) = Err EStruct.
Proof. exact eof_too_large_fails. Qed.
Print Assumptions C06_eof_too_large_fails.

Example C06_eof_nonvacuous :
  eof_valid eof_example_conf eof_example_params /\
  eof_layout eof_example_conf eof_example_params =
  [39; 0; 21; 16; 1; 2; 5; 3; 4; 4; 96; 222; 173; 190; 239; 1; 2; 3; 4; 5; 6; 7; 8; 6; 3; 1; 2; 3; 67; 195].
Proof. split; [exact eof_valid_example | exact eof_layout_example]. Qed.

(* ------------------------------------------------------------------ ACK *)

Theorem C06_ack_new : forall c q, ack_valid c q ->
  ack_new c (ap_code q) (ap_cc q) (ap_status q) = Ok (ack_pdu_of c q, c).
Proof. exact ack_new_ok. Qed.
Print Assumptions C06_ack_new.

Theorem C06_ack_bad_code_refused : forall c code cc st, code <> 4 -> code <> 5 ->
  ack_new c code cc st = Err EValue.
Proof. exact ack_bad_code_refused. Qed.
Print Assumptions C06_ack_bad_code_refused.

Theorem C06_ack_pack_layout : forall c q, ack_valid c q -> ack_pack (ack_pdu_of c q) = Ok (ack_layout c q).
Proof. exact ack_pack_layout. Qed.
Print Assumptions C06_ack_pack_layout.

Theorem C06_ack_data_field_len : forall c q, ack_valid c q ->
  let p := ack_pdu_of c q in
  h_dlen (fd_hdr (ack_fd p)) = len (ack_layout c q) - hdr_header_len (fd_hdr (ack_fd p)) /\
  ack_packet_len p = len (ack_layout c q) /\
  h_dlen (fd_hdr (ack_fd p)) = 3 + crc_octets c.
Proof. exact ack_data_field_len. Qed.
Print Assumptions C06_ack_data_field_len.

Theorem C06_ack_unpack_pack : forall c q rest, ack_valid c q -> wf_bytes rest ->
  ack_unpack (ack_layout c q ++ rest) = Ok (ack_pdu_of c q).
Proof. exact ack_unpack_pack. Qed.
Print Assumptions C06_ack_unpack_pack.

Theorem C06_ack_roundtrip : forall c q rest, ack_valid c q -> wf_bytes rest ->
  exists p b p',
    ack_new c (ap_code q) (ap_cc q) (ap_status q) = Ok (p, c) /\ ack_pack p = Ok b /\ b = ack_layout c q /\
    ack_unpack (b ++ rest) = Ok p' /\
    ack_code p' = ap_code q /\ ack_cc p' = ap_cc q /\ ack_status p' = ap_status q /\
    ack_subtype p' = ack_subtype_of (ap_code q) /\ p' = p /\
    ack_eqb p' p = true /\ ack_pack p' = Ok b /\ ack_packet_len p' = len b.
Proof. exact ack_roundtrip. Qed.
Print Assumptions C06_ack_roundtrip.

Example C06_ack_nonvacuous :
  ack_valid ack_example_conf ack_example_params /\
  ack_layout ack_example_conf ack_example_params = [38; 0; 5; 16; 1; 2; 5; 3; 4; 6; 81; 178; 56; 76].
Proof. split; [exact ack_valid_example | exact ack_layout_example]. Qed.

(* ------------------------------------------------------------------ Prompt *)

Theorem C06_prompt_new : forall c rr, prompt_valid c rr -> prompt_new c rr = Ok (prompt_pdu_of c rr, c).
Proof. exact prompt_new_ok. Qed.
Print Assumptions C06_prompt_new.

Theorem C06_prompt_pack_layout : forall c rr, prompt_valid c rr ->
  prompt_pack (prompt_pdu_of c rr) = Ok (prompt_layout c rr).
Proof. exact prompt_pack_layout. Qed.
Print Assumptions C06_prompt_pack_layout.

Theorem C06_prompt_data_field_len : forall c rr, prompt_valid c rr ->
  let p := prompt_pdu_of c rr in
  h_dlen (fd_hdr (pr_fd p)) = len (prompt_layout c rr) - hdr_header_len (fd_hdr (pr_fd p)) /\
  prompt_packet_len p = len (prompt_layout c rr) /\
  h_dlen (fd_hdr (pr_fd p)) = 2 + crc_octets c.
Proof. exact prompt_data_field_len. Qed.
Print Assumptions C06_prompt_data_field_len.

Theorem C06_prompt_unpack_pack : forall c rr rest, prompt_valid c rr -> wf_bytes rest ->
  prompt_unpack (prompt_layout c rr ++ rest) = Ok (prompt_pdu_of c rr).
Proof. exact prompt_unpack_pack. Qed.
Print Assumptions C06_prompt_unpack_pack.

Theorem C06_prompt_roundtrip : forall c rr rest, prompt_valid c rr -> wf_bytes rest ->
  exists p b p',
    prompt_new c rr = Ok (p, c) /\ prompt_pack p = Ok b /\ b = prompt_layout c rr /\
    prompt_unpack (b ++ rest) = Ok p' /\ pr_rr p' = rr /\ p' = p /\
    prompt_eqb p' p = true /\ prompt_pack p' = Ok b /\ prompt_packet_len p' = len b.
Proof. exact prompt_roundtrip. Qed.
Print Assumptions C06_prompt_roundtrip.

(* a response_required value other than 0 / 1 is accepted by the constructor but cannot be packed *)
Theorem C06_prompt_bad_rr_fails : forall c rr, conf_valid c -> ~ (rr = 0 \/ rr = 1) ->
  exists p, prompt_new c rr = Ok (p, c) /\ prompt_pack p = Err EValue.
Proof. exact prompt_bad_rr_fails. Qed.
Print Assumptions C06_prompt_bad_rr_fails.

Example C06_prompt_nonvacuous :
  prompt_valid prompt_example_conf 1 /\
  prompt_layout prompt_example_conf 1 = [38; 0; 4; 16; 1; 2; 5; 3; 4; 9; 128; 82; 160].
Proof. split; [exact prompt_valid_example | exact prompt_layout_example]. Qed.

(* ------------------------------------------------------------------ Keep Alive *)

Theorem C06_ka_new : forall c v, conf_valid c -> ka_new c v = Ok (ka_pdu_of c v, c).
Proof. exact ka_new_ok. Qed.
Print Assumptions C06_ka_new.

(* progress is big-endian (before the repair a4c1a37: the host's native byte order) *)
Theorem C06_ka_pack_layout : forall c v, ka_valid c v -> ka_pack (ka_pdu_of c v) = Ok (ka_layout c v).
Proof. exact ka_pack_layout. Qed.
Print Assumptions C06_ka_pack_layout.

Theorem C06_ka_data_field_len : forall c v, conf_valid c ->
  let p := ka_pdu_of c v in
  h_dlen (fd_hdr (ka_fd p)) = len (ka_layout c v) - hdr_header_len (fd_hdr (ka_fd p)) /\
  ka_packet_len p = len (ka_layout c v) /\
  h_dlen (fd_hdr (ka_fd p)) = 1 + Z.of_nat (fss_octets c) + crc_octets c.
Proof. exact ka_data_field_len. Qed.
Print Assumptions C06_ka_data_field_len.

Theorem C06_ka_unpack_pack : forall c v rest, ka_valid c v -> wf_bytes rest ->
  ka_unpack (ka_layout c v ++ rest) = Ok (ka_pdu_of c v).
Proof. exact ka_unpack_pack. Qed.
Print Assumptions C06_ka_unpack_pack.

Theorem C06_ka_roundtrip : forall c v rest, ka_valid c v -> wf_bytes rest ->
  exists p b p',
    ka_new c v = Ok (p, c) /\ ka_pack p = Ok b /\ b = ka_layout c v /\
    ka_unpack (b ++ rest) = Ok p' /\ ka_progress p' = v /\ p' = p /\
    ka_eqb p' p = true /\ ka_pack p' = Ok b /\ ka_packet_len p' = len b.
Proof. exact ka_roundtrip. Qed.
Print Assumptions C06_ka_roundtrip.

(* progress outside the 32-bit (64-bit with the large file flag) range: packing fails, no octets *)
Theorem C06_ka_too_large_fails : forall c v, conf_valid c ->
  ~ (0 <= v < 256 ^ Z.of_nat (fss_octets c)) -> exists e, ka_pack (ka_pdu_of c v) = Err e.
Proof. exact ka_too_large_fails. Qed.
Print Assumptions C06_ka_too_large_fails.

Example C06_ka_nonvacuous :
  ka_valid ka_example_conf 72623859790382856 /\
  ka_layout ka_example_conf 72623859790382856 =
  [47; 0; 11; 16; 1; 2; 5; 3; 4; 12; 1; 2; 3; 4; 5; 6; 7; 8; 239; 249].
Proof. split; [exact ka_valid_example | exact ka_layout_example]. Qed.
