(* C14 — CDS short timestamps encode exactly and agree with calendar arithmetic.
   Statements only; every proof is `exact <lemma>` from Proofs/CdsProofs.v (integer core)
   and Proofs/CdsFloatProofs.v (float views). *)
From Coq Require Import ZArith List.
From SP Require Import Base.Result Base.Bytes Model.Cds Model.CdsSoftFloat Model.CdsFloat Spec.CdsSpec Proofs.CdsProofs Proofs.CdsFloatProofs Proofs.CdsFloatOrder.
Import ListNotations.
Open Scope Z_scope.

(* ---- encoding: P-field 0x40, 16-bit day, 32-bit milliseconds, for all 65536 x 86400000 pairs *)
Theorem C14_pack_layout : forall t, cds_valid t -> cds_pack t = Ok (cds_layout t).
Proof. exact cds_pack_layout. Qed.
Print Assumptions C14_pack_layout.

Theorem C14_layout_octets : forall t,
  cds_layout t =
  [64; (cdays t / 256) mod 256; cdays t mod 256;
   (cms t / 16777216) mod 256; (cms t / 65536) mod 256; (cms t / 256) mod 256; cms t mod 256].
Proof. exact cds_layout_octets. Qed.
Print Assumptions C14_layout_octets.

(* pack succeeds exactly on 16-bit days / 32-bit milliseconds (struct.error otherwise) *)
Theorem C14_pack_accepts_iff : forall t,
  (cds_packable t -> cds_pack t = Ok (cds_layout t)) /\
  (~ cds_packable t -> cds_pack t = Err EStruct).
Proof. exact (fun t => conj (cds_pack_layout_packable t) (cds_pack_refuses t)). Qed.
Print Assumptions C14_pack_accepts_iff.

(* decode (encode t ++ anything) = t *)
Theorem C14_unpack_pack : forall t rest, cds_valid t -> cds_unpack (cds_layout t ++ rest) = Ok t.
Proof. exact cds_unpack_pack. Qed.
Print Assumptions C14_unpack_pack.

(* every accepted octet string re-encodes to 0x40 followed by its octets 1..6 *)
Theorem C14_pack_unpack : forall b, wf_bytes b -> (7 <= length b)%nat ->
  (nth 0 b 0 / 16) mod 8 = 4 -> (nth 0 b 0 / 4) mod 2 = 0 ->
  exists t, cds_unpack b = Ok t /\ cds_packable t /\
            cds_pack t = Ok (64 :: slice b 1 7) /\ cds_layout t = 64 :: slice b 1 7.
Proof. exact cds_pack_unpack. Qed.
Print Assumptions C14_pack_unpack.

(* refusals: short input, time code other than 100b, 24-bit day segment — and nothing else *)
Theorem C14_unpack_refuses : forall b, wf_bytes b ->
  cds_unpack_from_raw b =
  if (length b <? 7)%nat then Err ETooShort
  else if negb ((nth 0 b 0 / 16) mod 8 =? 4) then Err EValue
  else if negb ((nth 0 b 0 / 4) mod 2 =? 0) then Err EValue
  else Ok (be_decode (slice b 1 3), be_decode (slice b 3 7)).
Proof. exact cds_unpack_from_raw_spec. Qed.
Print Assumptions C14_unpack_refuses.
Theorem C14_unpack_short : forall b, (length b < 7)%nat -> cds_unpack_from_raw b = Err ETooShort.
Proof. exact cds_unpack_short. Qed.
Print Assumptions C14_unpack_short.
Theorem C14_unpack_wrong_time_code : forall b, wf_bytes b -> (7 <= length b)%nat ->
  (nth 0 b 0 / 16) mod 8 <> 4 -> cds_unpack_from_raw b = Err EValue.
Proof. exact cds_unpack_wrong_time_code. Qed.
Print Assumptions C14_unpack_wrong_time_code.
Theorem C14_unpack_24bit_days : forall b, wf_bytes b -> (7 <= length b)%nat ->
  (nth 0 b 0 / 4) mod 2 <> 0 -> cds_unpack_from_raw b = Err EValue.
Proof. exact cds_unpack_24bit_days. Qed.
Print Assumptions C14_unpack_24bit_days.
Theorem C14_unpack_is_unpack_from_raw : forall b, cds_unpack b =
  match cds_unpack_from_raw b with Ok (d, ms) => Ok (cds_new d ms) | Err e => Err e end.
Proof. exact cds_unpack_of_raw. Qed.
Print Assumptions C14_unpack_is_unpack_from_raw.

(* ---- instants: (d, ms) <-> milliseconds since 1970 is a bijection, and order preserving *)
Theorem C14_instant_bijective : forall t, 0 <= cms t < 86400000 ->
  cds_of_instant_ms (cds_instant_ms t) = t.
Proof. exact cds_instant_roundtrip. Qed.
Print Assumptions C14_instant_bijective.
Theorem C14_instant_onto : forall i, - 4383 * 86400000 <= i < (65536 - 4383) * 86400000 ->
  cds_valid (cds_of_instant_ms i) /\ cds_instant_ms (cds_of_instant_ms i) = i.
Proof. exact cds_of_instant_valid. Qed.
Print Assumptions C14_instant_onto.
Theorem C14_monotone : forall a b, 0 <= cms a < 86400000 -> 0 <= cms b < 86400000 ->
  (cds_lt a b <-> cds_instant_ms a < cds_instant_ms b).
Proof. exact cds_monotone. Qed.
Print Assumptions C14_monotone.
Theorem C14_convert_days : forall d,
  convert_unix_days_to_ccsds_days d = d + 4383 /\ convert_ccsds_days_to_unix_days d = d - 4383 /\
  convert_ccsds_days_to_unix_days (convert_unix_days_to_ccsds_days d) = d /\
  convert_unix_days_to_ccsds_days (convert_ccsds_days_to_unix_days d) = d.
Proof. exact cds_convert_days. Qed.
Print Assumptions C14_convert_days.

(* ---- from_datetime: the day and the (floor) millisecond of the datetime's instant, exact on
   whole milliseconds, also before 1970; valid for every datetime 1958-01-01 .. 2137-06-06 *)
Theorem C14_from_datetime_exact : forall ud sod us, dt_valid ud sod us ->
  let t := cds_from_datetime ud sod us in
  cdays t = ud + 4383 /\ cms t = sod * 1000 + us / 1000 /\ 0 <= cms t < 86400000 /\
  cds_instant_ms t = dt_instant_us ud sod us / 1000 /\
  t = cds_of_instant_ms (dt_instant_us ud sod us / 1000) /\
  (us mod 1000 = 0 -> cds_instant_ms t * 1000 = dt_instant_us ud sod us) /\
  (- 4383 <= ud <= 61152 -> cds_valid t).
Proof. exact cds_from_datetime_exact. Qed.
Print Assumptions C14_from_datetime_exact.

(* non-vacuity of dt_valid: the last microsecond before the Unix epoch.
   A datetime enters the model as (days since 1970-01-01, second of day, microsecond): the civil
   calendar (year / month / day -> day count, leap years) is CPython's `datetime` arithmetic
   (`dt - epoch`, timedelta.days) and is OUTSIDE the model; the harness compares the model with
   the implementation on real datetime objects. *)
Example C14_dt_valid_inhabited :
  dt_valid (-1) 86399 999999 /\
  cds_from_datetime (-1) 86399 999999 = {| cdays := 4382; cms := 86399999 |}.
Proof. exact dt_valid_example. Qed.

(* ---- __add__: integer arithmetic on total milliseconds, normalised, OverflowError iff the
   day count would exceed 16 bits *)
Theorem C14_add_correct : forall t dd ds du,
  0 <= cdays t <= 65535 -> 0 <= cms t < 86400000 -> td_valid dd ds du -> 0 <= dd ->
  let total := cdays t * 86400000 + cms t + td_ms dd ds du in
  (total / 86400000 <= 65535 ->
     cds_add t dd ds du = Ok {| cdays := total / 86400000; cms := total mod 86400000 |}) /\
  (65535 < total / 86400000 -> cds_add t dd ds du = Err EOverflow).
Proof. exact cds_add_correct. Qed.
Print Assumptions C14_add_correct.
Theorem C14_add_instant : forall t dd ds du r,
  cds_valid t -> td_valid dd ds du -> 0 <= dd -> cds_add t dd ds du = Ok r ->
  cds_valid r /\ cds_instant_ms r = cds_instant_ms t + td_ms dd ds du.
Proof. exact cds_add_instant. Qed.
Print Assumptions C14_add_instant.
Theorem C14_add_overflow_iff : forall t dd ds du,
  cds_valid t -> td_valid dd ds du -> 0 <= dd ->
  (cds_add t dd ds du = Err EOverflow <->
   65535 < (cdays t * 86400000 + cms t + td_ms dd ds du) / 86400000).
Proof. exact cds_add_overflow_iff. Qed.
Print Assumptions C14_add_overflow_iff.

(* the same object incremented any number of times *)
Theorem C14_add_history : forall tds t r,
  cds_valid t -> Forall (fun x => let '(d, s, u) := x in td_valid d s u /\ 0 <= d) tds ->
  cds_add_all t tds = Ok r ->
  cds_valid r /\
  cds_instant_ms r = cds_instant_ms t + fold_right (fun x acc => let '(d, s, u) := x in td_ms d s u + acc) 0 tds.
Proof. exact cds_add_all_instant. Qed.
Print Assumptions C14_add_history.

Theorem C14_eq : forall a b, cds_eqb a b = true <-> a = b.
Proof. exact cds_eqb_eq. Qed.
Print Assumptions C14_eq.

(* ---- float views, on the integer binary64 arithmetic of Model/CdsSoftFloat.v (bit-exact
   against CPython on every run).
   fl_close u n d b  :=  fe u < 0 /\ 2^b * |d * fm u - n * 2^(-fe u)| <= d * 2^(-fe u),
   i.e. the double u = fm u * 2^(fe u) satisfies |u - n/d| <= 2^-b.
   as_unix_seconds is 0.0 at the Unix epoch and otherwise a normal double within 2^-21 s of
   (days - 4383) * 86400 + ms / 1000, with the sign of that instant (also before 1970). *)
Theorem C14_unix_seconds_close : forall t, cds_valid t ->
  let u := cds_unix_seconds t in let i := cds_instant_ms t in
  (i = 0 -> u = fzero) /\
  (i <> 0 -> fl_close u i 1000 21 /\ fl_normal u /\ (0 < i -> 0 < fm u) /\ (i < 0 -> fm u < 0)).
Proof. exact cds_unix_seconds_close. Qed.
Print Assumptions C14_unix_seconds_close.

(* "later timestamps map to later instants" for the float view: as_unix_seconds is STRICTLY
   monotone.  fl_lt x y := fm x * 2^(fe x - e) < fm y * 2^(fe y - e), e = min (fe x) (fe y): the
   exact rational order of the two doubles.  Consecutive representable stamps are 1 ms apart, the
   correctly rounded division errs by at most 2^-21 s on each side. *)
Theorem C14_unix_seconds_monotone : forall a b, cds_valid a -> cds_valid b ->
  (cds_lt a b <-> fl_lt (cds_unix_seconds a) (cds_unix_seconds b)).
Proof. exact cds_unix_seconds_monotone. Qed.
Print Assumptions C14_unix_seconds_monotone.
Theorem C14_unix_seconds_injective : forall a b, cds_valid a -> cds_valid b ->
  cds_unix_seconds a = cds_unix_seconds b -> a = b.
Proof. exact cds_unix_seconds_inj. Qed.
Print Assumptions C14_unix_seconds_injective.
Example C14_unix_seconds_lt_inhabited :
  fl_lt (cds_unix_seconds {| cdays := 4382; cms := 86399999 |}) (cds_unix_seconds {| cdays := 4383; cms := 0 |}) /\
  fl_lt (cds_unix_seconds {| cdays := 4383; cms := 0 |}) (cds_unix_seconds {| cdays := 4383; cms := 1 |}) /\
  fl_lt (cds_unix_seconds {| cdays := 65535; cms := 86399998 |}) (cds_unix_seconds {| cdays := 65535; cms := 86399999 |}).
Proof. exact unix_seconds_lt_example. Qed.

(* as_datetime (through datetime.fromtimestamp for instants >= 1970 and epoch + timedelta(seconds=float)
   before) is exactly 1958-01-01T00:00:00Z + days + ms, at microsecond resolution *)
Theorem C14_datetime_exact : forall t, cds_valid t ->
  cds_datetime_us t = cds_instant_ms t * 1000.
Proof. exact cds_datetime_exact. Qed.
Print Assumptions C14_datetime_exact.

Theorem C14_datetime_monotone : forall a b, cds_valid a -> cds_valid b ->
  (cds_lt a b <-> cds_datetime_us a < cds_datetime_us b).
Proof. exact cds_datetime_monotone. Qed.
Print Assumptions C14_datetime_monotone.

(* any double within 2^-21 s of a whole millisecond is converted to that exact microsecond by
   both CPython conversions *)
Theorem C14_float_to_datetime_exact : forall u N,
  fl_close u N 1000 21 -> Z.abs (fm u) < 2 ^ 53 ->
  us_fromtimestamp u = 1000 * N /\ us_timedelta_seconds u = 1000 * N.
Proof. exact (fun u N C H => conj (us_fromtimestamp_exact u N C H) (us_timedelta_exact u N C H)). Qed.
Print Assumptions C14_float_to_datetime_exact.

(* non-vacuity *)
Example C14_valid_inhabited : cds_valid {| cdays := 65535; cms := 86399999 |}.
Proof. exact cds_valid_example. Qed.
Example C14_add_inhabited :
  cds_add {| cdays := 65534; cms := 86399000 |} 0 1 0 = Ok {| cdays := 65535; cms := 0 |} /\
  cds_add {| cdays := 65535; cms := 86399000 |} 0 1 0 = Err EOverflow.
Proof. exact cds_add_example. Qed.
Example C14_views_inhabited :
  cds_unix_seconds {| cdays := 4382; cms := 1000 |} = {| fm := -5937294070513664; fe := -36 |} /\
  -5937294070513664 = -86399 * 2 ^ 36 /\
  cds_datetime_us {| cdays := 4382; cms := 1000 |} = -86399000000.
Proof. exact cds_views_example. Qed.

(* ms_of_today(float) is always a millisecond of a day *)
Theorem C14_ms_of_today_range : forall s, 0 <= cds_ms_of_today s < 86400000.
Proof. exact cds_ms_of_today_range. Qed.
Print Assumptions C14_ms_of_today_range.
(* ... and it is the millisecond of the day of floor(s * 1000), or of the neighbouring millisecond
   when the exact product s * 1000 = N / D lies within 2^-10 ms of that neighbour (the product
   is rounded to a double).  s = fm s * 2^(fe s), non-zero, below 2^44 / 1000 seconds. *)
Theorem C14_ms_of_today_close : forall s,
  fm s <> 0 -> fe s < 0 -> Z.abs (fm s) * 1000 < 2 ^ (- fe s) * 2 ^ 44 ->
  let N := fm s * 1000 in let D := 2 ^ (- fe s) in
  cds_ms_of_today s = (N / D) mod 86400000 \/
  (cds_ms_of_today s = (N / D + 1) mod 86400000 /\ 2 ^ 10 * (D - N mod D) <= D) \/
  (cds_ms_of_today s = (N / D - 1) mod 86400000 /\ 2 ^ 10 * (N mod D) <= D).
Proof. exact cds_ms_of_today_close. Qed.
Print Assumptions C14_ms_of_today_close.

(* the Unix seconds cached by from_datetime (dt.timestamp()) are within 2^-21 s of the datetime *)
Theorem C14_from_datetime_unix_seconds_close : forall ud sod us,
  dt_instant_us ud sod us <> 0 -> Z.abs (dt_instant_us ud sod us) < 1000000 * 2 ^ 33 ->
  fl_close (dt_timestamp ud sod us) (dt_instant_us ud sod us) 1000000 21 /\
  fl_normal (dt_timestamp ud sod us).
Proof. exact dt_timestamp_close. Qed.
Print Assumptions C14_from_datetime_unix_seconds_close.

Example C14_ms_of_today_inhabited :
  cds_ms_of_today (rne 863999995 10000) = 86399999 /\ cds_ms_of_today (rne 1009995 10000) = 100999 /\
  cds_ms_of_today (rne (-1) 2) = 86399500.
Proof. exact cds_ms_of_today_example. Qed.
