(* C14 — CDS short timestamps.  Statements only. *)
From Coq Require Import ZArith List.
From SP Require Import Base.Result Base.Bytes Model.Cds Model.CdsSoftFloat Model.CdsFloat Spec.CdsSpec Proofs.CdsProofs.
Import ListNotations.
Open Scope Z_scope.

Theorem C14_datetime_instant_refuted :
  exists t, cds_valid t /\ cds_datetime_us t <> cds_instant_ms t * 1000 /\
            cds_datetime_us t = -86401000000 /\ cds_instant_ms t * 1000 = -86399000000.
Proof. exact cds_datetime_instant_refuted. Qed.
Print Assumptions C14_datetime_instant_refuted.
Theorem C14_add_normalised_refuted :
  exists t r, cds_valid t /\ cds_add t 0 1 0 = Ok r /\ cms r = 86400000.
Proof. exact cds_add_normalised_refuted. Qed.
Print Assumptions C14_add_normalised_refuted.
Theorem C14_from_datetime_ms_refuted :
  exists ud sod us, dt_valid ud sod us /\ us mod 1000 = 0 /\
    cms (cds_from_datetime ud sod us) <> sod * 1000 + us / 1000.
Proof. exact cds_from_datetime_ms_refuted. Qed.
Print Assumptions C14_from_datetime_ms_refuted.
Theorem C14_from_datetime_day_refuted :
  exists ud sod us, dt_valid ud sod us /\ cdays (cds_from_datetime ud sod us) <> ud + 4383.
Proof. exact cds_from_datetime_day_refuted. Qed.
Print Assumptions C14_from_datetime_day_refuted.
