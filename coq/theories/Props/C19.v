(* C19 — sequence counters count modulo 2^width, stay in range and survive restarts.
   Statements only; every proof is `exact <lemma>` from Proofs/SeqCountProofs.v.
   Model: Model/SeqCount.v (spacepackets/seqcount.py after the repair of D-C19-1, /repo
   e4cefce); the count file is a list of ASCII character codes, explicit state in and out
   of every operation, None = missing.  Spec: Spec/SeqCountSpec.v (spec_counter w i =
   i mod 2^w, in_range, holds_count = "first line is a decimal numeral of a value in range",
   spec_run = the abstract counter under a history, count_from).
   Only inter-call stopping points are expressible (as the property states); w >= 0. *)
From Coq Require Import ZArith List.
From SP Require Import Base.Result Base.Bytes Model.SeqCount Spec.SeqCountSpec Proofs.SeqCountProofs Proofs.SeqCountAscii.
Import ListNotations.
Open Scope Z_scope.

(* in-memory provider: the i-th call (from 0) returns i mod 2^w and lies in [0, 2^w - 1], for
   every width and every number of calls n (in particular n > 2^w) *)
Theorem C19_mem_seq : forall w n i, 0 <= w -> (i < n)%nat ->
  nth i (mem_run w n mem_init) 0 = spec_counter w (Z.of_nat i) /\
  in_range w (nth i (mem_run w n mem_init) 0).
Proof. exact mem_seq. Qed.
Print Assumptions C19_mem_seq.

(* file-backed provider, one call on any file state: a held count n is returned and its
   successor (n+1) mod 2^w is held afterwards; any other content -> ValueError and the file is
   untouched; missing file -> FileNotFoundError *)
Theorem C19_file_next : forall w fs, 0 <= w ->
  match fs with
  | None => file_next w fs = (Err EFileNotFound, None) /\ file_current w fs = Err EFileNotFound
  | Some c =>
      (forall n, holds_count w c n ->
         exists c', file_next w fs = (Ok n, Some c') /\ holds_count w c' (spec_succ w n) /\
                    file_current w fs = Ok n) /\
      ((forall n, ~ holds_count w c n) ->
         file_next w fs = (Err EValue, Some c) /\ file_current w fs = Err EValue)
  end.
Proof. exact file_next_spec. Qed.
Print Assumptions C19_file_next.

(* the rejection clause with the alphabet explicit: EVERY file content over the ASCII alphabet
   (ascii_text c := Forall (fun x => 0 <= x <= 127) c) either holds a count or is refused with
   ValueError by get_and_increment and by current, the file left exactly as it was.
   Content outside ASCII (where Python's str.isdigit / int / rstrip and the text decoding of the
   file know more digits, more blanks and undecodable octets) is OUTSIDE the model: it is explored
   on the implementation only (harness/props/c19.py, EXPLORED_ONLY). *)
Theorem C19_file_content_dichotomy : forall w c, ascii_text c -> 0 <= w ->
  (exists n, holds_count w c n) \/
  (file_next w (Some c) = (Err EValue, Some c) /\ file_current w (Some c) = Err EValue).
Proof. exact file_content_dichotomy. Qed.
Print Assumptions C19_file_content_dichotomy.
Theorem C19_file_content_exclusive : forall w c n, 0 <= w -> holds_count w c n ->
  fst (file_next w (Some c)) = Ok n /\ file_current w (Some c) = Ok n.
Proof. exact file_content_exclusive. Qed.
Print Assumptions C19_file_content_exclusive.
Example C19_dichotomy_inhabited :
  ascii_text [52; 50; 32; 13; 10; 120] /\ holds_count 14 [52; 50; 32; 13; 10; 120] 42 /\
  ascii_text [52; 50; 120; 10] /\ file_next 14 (Some [52; 50; 120; 10]) = (Err EValue, Some [52; 50; 120; 10]) /\
  ascii_text [] /\ file_next 14 (Some []) = (Err EValue, Some []) /\
  ascii_text [49; 54; 51; 56; 52; 10] /\ file_next 14 (Some [49; 54; 51; 56; 52; 10]) = (Err EValue, Some [49; 54; 51; 56; 52; 10]).
Proof. exact dichotomy_examples. Qed.

(* what the provider reads as "count n" is exactly the independent notion *)
Theorem C19_file_valid_iff : forall w c n, file_valid w c n <-> holds_count w c n.
Proof. exact file_valid_iff. Qed.
Print Assumptions C19_file_valid_iff.

(* first use: created where no file exists, the provider starts at 0 *)
Theorem C19_file_first_use : forall w, 0 <= w ->
  file_new None = Some [48; 10] /\ file_valid w [48; 10] 0.
Proof. exact file_first_use. Qed.
Print Assumptions C19_file_first_use.

(* histories of any length with a new provider object (FRestart) and current() allowed at
   every inter-call point: the provider refines the abstract counter, and the file holds a
   valid count (the abstract one) after every operation *)
Theorem C19_file_refines : forall w, 0 <= w -> forall ops c n, file_valid w c n ->
  exists c', file_run w (Some c) ops = (fst (spec_run w n ops), Some c') /\
             file_valid w c' (snd (spec_run w n ops)).
Proof. exact file_refines. Qed.
Print Assumptions C19_file_refines.

(* hence the Next calls of ANY such history return n, n+1, n+2, ... modulo 2^w (count_from),
   wherever the restarts are; a new object on an existing file changes nothing *)
Theorem C19_file_seq : forall w ops c n, 0 <= w -> file_valid w c n ->
  next_values ops (fst (file_run w (Some c) ops)) = map Ok (count_from w n (count_nexts ops)) /\
  exists c' n', snd (file_run w (Some c) ops) = Some c' /\ file_valid w c' n'.
Proof. exact file_seq. Qed.
Print Assumptions C19_file_seq.
Theorem C19_file_seq_fresh : forall w ops, 0 <= w ->
  next_values ops (fst (file_run w (file_new None) ops)) = map Ok (count_from w 0 (count_nexts ops)).
Proof. exact file_seq_fresh. Qed.
Print Assumptions C19_file_seq_fresh.
Theorem C19_count_from_nth : forall w k n i, (i < k)%nat ->
  nth i (count_from w n k) 0 = spec_counter w (n + Z.of_nat i).
Proof. exact count_from_nth. Qed.
Print Assumptions C19_count_from_nth.
Theorem C19_file_restart : forall w c, file_step w (Some c) FRestart = (None, Some c).
Proof. exact file_restart. Qed.
Print Assumptions C19_file_restart.

(* every outcome of a call: a count in range, ValueError, or FileNotFoundError on a missing file *)
Theorem C19_file_next_total : forall w fs,
  match fst (file_next w fs) with
  | Ok n => in_range w n
  | Err e => e = EValue \/ (e = EFileNotFound /\ fs = None)
  end.
Proof. exact file_next_total. Qed.
Print Assumptions C19_file_next_total.

(* width 14 (PusFileSeqCountProvider): in range = acceptable as a packet sequence count *)
Theorem C19_pus_range : forall n, in_range PUS_SEQ_WIDTH n <-> 0 <= n <= MAX_SEQ_COUNT.
Proof. exact pus_range. Qed.
Print Assumptions C19_pus_range.

(* non-vacuity *)
Example C19_valid_inhabited : file_valid 14 [49; 54; 51; 56; 51; 10] 16383.
Proof. exact file_valid_example. Qed.
Example C19_rollover_without_truncation :
  file_next 14 (Some [49; 54; 51; 56; 51; 10]) = (Ok 16383, Some [48; 10; 51; 56; 51; 10]).
Proof. exact file_rollover_example. Qed.
Example C19_mem_wraps : mem_run 2 6 mem_init = [0; 1; 2; 3; 0; 1].
Proof. exact mem_wrap_example. Qed.
