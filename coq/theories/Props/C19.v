(* C19 — sequence counters.  State on the UNREPAIRED code: witness of D-C19-1. *)
From Coq Require Import ZArith List.
From SP Require Import Base.Result Base.Bytes Model.SeqCount Spec.SeqCountSpec Proofs.SeqCountProofs.
Import ListNotations.
Open Scope Z_scope.

Theorem C19_mem_seq_refuted :
  exists w n i, nth i (mem_run w n mem_init) 0 <> spec_counter w (Z.of_nat i) /\
                ~ in_range w (nth i (mem_run w n mem_init) 0).
Proof. exact mem_seq_refuted. Qed.
Print Assumptions C19_mem_seq_refuted.
