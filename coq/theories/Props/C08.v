(* C08 — CFDP TLV and LV items encode exactly, round-trip, and are type-safe.
   Statements only; every proof is `exact <lemma>` from Proofs/LvProofs.v, Proofs/TlvProofs.v.
   Layouts (`lv_layout`, `tlv_layout`, `fsreq_layout`, ...) are those of Spec/TlvSpec.v
   (727.0-B-5 5.1.8, 5.1.9, 5.4).  File names are the UTF-8 octets of the Python str. *)
From Coq Require Import ZArith List Bool.
From SP Require Import Base.Result Base.Bytes Base.Utf8 Model.Lv Model.Tlv Spec.TlvSpec
  Proofs.LvProofs Proofs.TlvProofs Proofs.TlvConv.
Import ListNotations.
Open Scope Z_scope.

(* ---------------- LV ---------------- *)
Theorem C08_lv_pack_layout : forall v, lv_pack v = lv_layout v /\ lv_packet_len v = len (lv_pack v).
Proof. exact lv_pack_layout_len. Qed.
Print Assumptions C08_lv_pack_layout.

Theorem C08_lv_roundtrip : forall v rest, len v <= 255 -> lv_unpack (lv_layout v ++ rest) = Ok v.
Proof. exact lv_roundtrip_layout. Qed.
Print Assumptions C08_lv_roundtrip.

(* an accepted input starts with exactly length+1 octets that encode the result *)
Theorem C08_lv_consumed : forall d v, wf_bytes d -> lv_unpack d = Ok v ->
  exists rest, d = lv_layout v ++ rest /\ len (lv_layout v) = len v + 1 /\ lv_packet_len v = len v + 1.
Proof. exact lv_consumed. Qed.
Print Assumptions C08_lv_consumed.

Theorem C08_lv_too_long : forall v, 255 < len v -> lv_new v = Err EValue.
Proof. exact lv_new_too_long. Qed.
Print Assumptions C08_lv_too_long.

(* ---------------- generic TLV ---------------- *)
Theorem C08_tlv_pack_layout : forall ty v, 0 <= ty < 256 -> len v <= 255 ->
  exists t, tlv_new ty v = Ok t /\ tlv_pack t = Ok (tlv_layout ty v) /\
            tlv_packet_len t = len (tlv_layout ty v) /\ tlv_packet_len t = len v + 2.
Proof. exact tlv_pack_layout_all. Qed.
Print Assumptions C08_tlv_pack_layout.

Theorem C08_tlv_roundtrip : forall ty v rest, is_tlv_type ty = true -> len v <= 255 ->
  tlv_unpack (tlv_layout ty v ++ rest) = Ok {| tlv_type := ty; tlv_value := v |}.
Proof. exact tlv_roundtrip. Qed.
Print Assumptions C08_tlv_roundtrip.

Theorem C08_tlv_consumed : forall d t, wf_bytes d -> tlv_unpack d = Ok t ->
  exists rest, d = tlv_layout (tlv_type t) (tlv_value t) ++ rest /\
               len (tlv_layout (tlv_type t) (tlv_value t)) = len (tlv_value t) + 2 /\
               tlv_packet_len t = len (tlv_value t) + 2.
Proof. exact tlv_consumed. Qed.
Print Assumptions C08_tlv_consumed.

Theorem C08_tlv_too_long : forall ty v, 255 < len v -> tlv_new ty v = Err EValue.
Proof. exact tlv_new_too_long. Qed.
Print Assumptions C08_tlv_too_long.

Theorem C08_tlv_types : forall x,
  is_tlv_type x = true <-> x = 0 \/ x = 1 \/ x = 2 \/ x = 4 \/ x = 5 \/ x = 6.
Proof. exact is_tlv_type_iff. Qed.
Print Assumptions C08_tlv_types.

Theorem C08_tlv_eq : forall a b, tlv_eqb a b = true <-> a = b.
Proof. exact tlv_eqb_eq. Qed.
Print Assumptions C08_tlv_eq.

(* ---------------- entity ID, flow label, message to user ---------------- *)
Theorem C08_wrappers_layout : forall v, len v <= 255 ->
  (exists t, entity_new v = Ok t /\ tlv_pack t = Ok (entity_layout v) /\ tlv_packet_len t = len (entity_layout v)) /\
  (exists t, flow_new v = Ok t /\ tlv_pack t = Ok (flow_layout v) /\ tlv_packet_len t = len (flow_layout v)) /\
  (exists t, msg_new v = Ok t /\ tlv_pack t = Ok (msg_layout v) /\ tlv_packet_len t = len (msg_layout v)).
Proof. exact wrappers_layout. Qed.
Print Assumptions C08_wrappers_layout.

Theorem C08_wrappers_roundtrip : forall v rest, len v <= 255 ->
  entity_unpack (entity_layout v ++ rest) = Ok {| tlv_type := TLV_ENTITY_ID; tlv_value := v |} /\
  flow_unpack (flow_layout v ++ rest) = Ok {| tlv_type := TLV_FLOW_LABEL; tlv_value := v |} /\
  msg_unpack (msg_layout v ++ rest) = Ok {| tlv_type := TLV_MESSAGE_TO_USER; tlv_value := v |}.
Proof. exact wrappers_roundtrip. Qed.
Print Assumptions C08_wrappers_roundtrip.

Theorem C08_wrappers_too_long : forall v, 255 < len v ->
  entity_new v = Err EValue /\ flow_new v = Err EValue /\ msg_new v = Err EValue.
Proof. exact wrappers_too_long. Qed.
Print Assumptions C08_wrappers_too_long.

(* entity-ID TLVs compare by numerical value, for every ID length, and the comparison never raises *)
Theorem C08_entity_eq : forall a b,
  entity_eqb a b = Ok (be_decode (tlv_value a) =? be_decode (tlv_value b)) /\
  (tlv_value a = tlv_value b -> entity_eqb a b = Ok true).
Proof. exact entity_eqb_spec. Qed.
Print Assumptions C08_entity_eq.

(* ---------------- fault handler override ---------------- *)
Theorem C08_fault_roundtrip : forall cc hc rest, 0 <= cc <= 15 -> 0 <= hc <= 15 ->
  exists f, fault_new cc hc = Ok f /\ fh_cc f = cc /\ fh_hc f = hc /\
            tlv_pack (fh_tlv f) = Ok (fault_layout cc hc) /\
            tlv_packet_len (fh_tlv f) = len (fault_layout cc hc) /\
            fault_unpack (fault_layout cc hc ++ rest) = Ok f.
Proof. exact fault_roundtrip. Qed.
Print Assumptions C08_fault_roundtrip.

(* ---------------- filestore request: all 9 action codes, one or two names ---------------- *)
Theorem C08_fsreq_roundtrip : forall a f s rest,
  0 <= a <= 8 -> 1 + len (fs_names_layout a f s) <= 255 ->
  utf8_valid f = true -> (second_name_present a = true -> utf8_valid s = true) ->
  let r := {| fq_action := a; fq_first := f; fq_second := s |} in
  fsreq_pack r = Ok (fsreq_layout a f s) /\
  fsreq_packet_len r = len (fsreq_layout a f s) /\
  fsreq_unpack (fsreq_layout a f s ++ rest) =
    Ok {| fq_action := a; fq_first := f; fq_second := if second_name_present a then s else [] |}.
Proof. exact fsreq_roundtrip. Qed.
Print Assumptions C08_fsreq_roundtrip.

Theorem C08_fsreq_too_long : forall a f s,
  0 <= a <= 8 -> 255 < 1 + len (fs_names_layout a f s) ->
  fsreq_pack {| fq_action := a; fq_first := f; fq_second := s |} = Err EValue.
Proof. exact fsreq_pack_too_long. Qed.
Print Assumptions C08_fsreq_too_long.

(* ---------------- filestore response: every action code with its status codes ---------------- *)
Theorem C08_fsresp_roundtrip : forall a sc f s m rest,
  is_fs_status sc = true -> 0 <= sc -> sc / 16 = a ->
  1 + len (fs_names_layout a f s) + (1 + len m) <= 255 ->
  utf8_valid f = true -> (second_name_present a = true -> utf8_valid s = true) ->
  let r := {| fp_action := a; fp_status := sc; fp_first := f; fp_second := s; fp_msg := m |} in
  fsresp_pack r = Ok (fsresp_layout a (sc mod 16) f s m) /\
  fsresp_packet_len r = len (fsresp_layout a (sc mod 16) f s m) /\
  fsresp_unpack (fsresp_layout a (sc mod 16) f s m ++ rest) =
    Ok {| fp_action := a; fp_status := sc; fp_first := f;
          fp_second := if second_name_present a then s else []; fp_msg := m |}.
Proof. exact fsresp_roundtrip_status. Qed.
Print Assumptions C08_fsresp_roundtrip.

Theorem C08_fsresp_too_long : forall a sc f s m,
  0 <= a <= 8 -> 255 < 1 + len (fs_names_layout a f s) + (1 + len m) ->
  fsresp_pack {| fp_action := a; fp_status := sc; fp_first := f; fp_second := s; fp_msg := m |}
  = Err EValue.
Proof. exact fsresp_pack_too_long. Qed.
Print Assumptions C08_fsresp_too_long.

(* the decoded object reports the length of the TLV it was decoded from *)
Theorem C08_fs_reported_len : forall t,
  (forall r, fsreq_from_tlv t = Ok r -> fsreq_packet_len r = tlv_packet_len t) /\
  (forall r, fsresp_from_tlv t = Ok r -> fsresp_packet_len r = tlv_packet_len t).
Proof. exact fs_reported_len. Qed.
Print Assumptions C08_fs_reported_len.

Theorem C08_status_code_maps : forall sc, is_fs_status sc = true -> 0 <= sc ->
  map_enum_status_code_to_action_status_code sc = Ok (sc / 16, sc mod 16) /\
  map_int_status_code_to_enum (sc / 16) (sc mod 16) = sc /\ 0 <= sc / 16 <= 8.
Proof. exact status_code_maps. Qed.
Print Assumptions C08_status_code_maps.

(* ---------------- converting a generic TLV of the MATCHING type ---------------- *)
(* X_value_layout = the value part of X's layout *)
Theorem C08_value_layouts : forall a st f s m cc hc v,
  fsreq_layout a f s = tlv_layout T_FILESTORE_REQUEST (fsreq_value_layout a f s) /\
  fsresp_layout a st f s m = tlv_layout T_FILESTORE_RESPONSE (fsresp_value_layout a st f s m) /\
  fault_layout cc hc = tlv_layout T_FAULT_HANDLER_OVERRIDE [cc * 16 + hc] /\
  entity_layout v = tlv_layout T_ENTITY_ID v /\ flow_layout v = tlv_layout T_FLOW_LABEL v /\
  msg_layout v = tlv_layout T_MESSAGE_TO_USER v.
Proof. exact value_layouts. Qed.
Print Assumptions C08_value_layouts.

(* <Cls>.from_tlv(CfdpTlv(<its type>, <value>)) succeeds with the original parameters (hypotheses
   of the round-trip theorems) *)
Theorem C08_fsreq_from_tlv_matching : forall a f s,
  0 <= a <= 8 -> 1 + len (fs_names_layout a f s) <= 255 ->
  utf8_valid f = true -> (second_name_present a = true -> utf8_valid s = true) ->
  fsreq_from_tlv {| tlv_type := TLV_FILESTORE_REQUEST; tlv_value := fsreq_value_layout a f s |} =
  Ok {| fq_action := a; fq_first := f; fq_second := if second_name_present a then s else [] |}.
Proof. exact fsreq_from_tlv_matching. Qed.
Print Assumptions C08_fsreq_from_tlv_matching.

Theorem C08_fsresp_from_tlv_matching : forall a sc f s m,
  is_fs_status sc = true -> 0 <= sc -> sc / 16 = a ->
  1 + len (fs_names_layout a f s) + (1 + len m) <= 255 ->
  utf8_valid f = true -> (second_name_present a = true -> utf8_valid s = true) ->
  fsresp_from_tlv {| tlv_type := TLV_FILESTORE_RESPONSE;
                     tlv_value := fsresp_value_layout a (sc mod 16) f s m |} =
  Ok {| fp_action := a; fp_status := sc; fp_first := f;
        fp_second := if second_name_present a then s else []; fp_msg := m |}.
Proof. exact fsresp_from_tlv_matching. Qed.
Print Assumptions C08_fsresp_from_tlv_matching.

Theorem C08_fault_from_tlv_matching : forall cc hc, 0 <= cc <= 15 -> 0 <= hc <= 15 ->
  fault_from_tlv {| tlv_type := TLV_FAULT_HANDLER; tlv_value := [cc * 16 + hc] |} =
  Ok {| fh_cc := cc; fh_hc := hc;
        fh_tlv := {| tlv_type := TLV_FAULT_HANDLER; tlv_value := [cc * 16 + hc] |} |}.
Proof. exact fault_from_tlv_matching. Qed.
Print Assumptions C08_fault_from_tlv_matching.

Theorem C08_fault_from_tlv_is_new : forall cc hc, 0 <= cc <= 15 -> 0 <= hc <= 15 ->
  fault_from_tlv {| tlv_type := TLV_FAULT_HANDLER; tlv_value := [cc * 16 + hc] |} = fault_new cc hc.
Proof. exact fault_from_tlv_is_new. Qed.
Print Assumptions C08_fault_from_tlv_is_new.

Theorem C08_wrappers_from_tlv_matching : forall v,
  entity_from_tlv {| tlv_type := TLV_ENTITY_ID; tlv_value := v |} =
    Ok {| tlv_type := TLV_ENTITY_ID; tlv_value := v |} /\
  flow_from_tlv {| tlv_type := TLV_FLOW_LABEL; tlv_value := v |} =
    Ok {| tlv_type := TLV_FLOW_LABEL; tlv_value := v |} /\
  msg_from_tlv {| tlv_type := TLV_MESSAGE_TO_USER; tlv_value := v |} =
    Ok {| tlv_type := TLV_MESSAGE_TO_USER; tlv_value := v |}.
Proof. exact wrappers_from_tlv_matching. Qed.
Print Assumptions C08_wrappers_from_tlv_matching.

(* TlvHolder.to_<cls> on a generic TLV is exactly <Cls>.from_tlv ... *)
Theorem C08_holder_generic_is_from_tlv : forall t,
  holder_to TLV_FILESTORE_REQUEST (HGeneric t) = (do r <- fsreq_from_tlv t; Ok (HFsReq r)) /\
  holder_to TLV_FILESTORE_RESPONSE (HGeneric t) = (do r <- fsresp_from_tlv t; Ok (HFsResp r)) /\
  holder_to TLV_MESSAGE_TO_USER (HGeneric t) = (do r <- msg_from_tlv t; Ok (HMsg r)) /\
  holder_to TLV_FAULT_HANDLER (HGeneric t) = (do r <- fault_from_tlv t; Ok (HFault r)) /\
  holder_to TLV_FLOW_LABEL (HGeneric t) = (do r <- flow_from_tlv t; Ok (HFlow r)) /\
  holder_to TLV_ENTITY_ID (HGeneric t) = (do r <- entity_from_tlv t; Ok (HEntity r)).
Proof. exact holder_generic_is_from_tlv. Qed.
Print Assumptions C08_holder_generic_is_from_tlv.

(* ... hence a matching generic TLV converts to the concrete object with the original parameters *)
Theorem C08_holder_generic_matching_fsreq : forall a f s,
  0 <= a <= 8 -> 1 + len (fs_names_layout a f s) <= 255 ->
  utf8_valid f = true -> (second_name_present a = true -> utf8_valid s = true) ->
  holder_to TLV_FILESTORE_REQUEST
    (HGeneric {| tlv_type := TLV_FILESTORE_REQUEST; tlv_value := fsreq_value_layout a f s |}) =
  Ok (HFsReq {| fq_action := a; fq_first := f; fq_second := if second_name_present a then s else [] |}).
Proof. exact holder_generic_matching_fsreq. Qed.
Print Assumptions C08_holder_generic_matching_fsreq.

Theorem C08_holder_generic_matching_fsresp : forall a sc f s m,
  is_fs_status sc = true -> 0 <= sc -> sc / 16 = a ->
  1 + len (fs_names_layout a f s) + (1 + len m) <= 255 ->
  utf8_valid f = true -> (second_name_present a = true -> utf8_valid s = true) ->
  holder_to TLV_FILESTORE_RESPONSE
    (HGeneric {| tlv_type := TLV_FILESTORE_RESPONSE;
                 tlv_value := fsresp_value_layout a (sc mod 16) f s m |}) =
  Ok (HFsResp {| fp_action := a; fp_status := sc; fp_first := f;
                 fp_second := if second_name_present a then s else []; fp_msg := m |}).
Proof. exact holder_generic_matching_fsresp. Qed.
Print Assumptions C08_holder_generic_matching_fsresp.

Theorem C08_holder_generic_matching_simple : forall cc hc v, 0 <= cc <= 15 -> 0 <= hc <= 15 ->
  holder_to TLV_FAULT_HANDLER (HGeneric {| tlv_type := TLV_FAULT_HANDLER; tlv_value := [cc * 16 + hc] |}) =
    Ok (HFault {| fh_cc := cc; fh_hc := hc;
                  fh_tlv := {| tlv_type := TLV_FAULT_HANDLER; tlv_value := [cc * 16 + hc] |} |}) /\
  holder_to TLV_ENTITY_ID (HGeneric {| tlv_type := TLV_ENTITY_ID; tlv_value := v |}) =
    Ok (HEntity {| tlv_type := TLV_ENTITY_ID; tlv_value := v |}) /\
  holder_to TLV_FLOW_LABEL (HGeneric {| tlv_type := TLV_FLOW_LABEL; tlv_value := v |}) =
    Ok (HFlow {| tlv_type := TLV_FLOW_LABEL; tlv_value := v |}) /\
  holder_to TLV_MESSAGE_TO_USER (HGeneric {| tlv_type := TLV_MESSAGE_TO_USER; tlv_value := v |}) =
    Ok (HMsg {| tlv_type := TLV_MESSAGE_TO_USER; tlv_value := v |}).
Proof. exact holder_generic_matching_simple. Qed.
Print Assumptions C08_holder_generic_matching_simple.

(* ---------------- type safety: the 6 x 6 table ---------------- *)
Theorem C08_foreign_type_refused_unpack : forall ty v rest,
  is_tlv_type ty = true -> len v <= 255 ->
  (ty <> TLV_ENTITY_ID -> entity_unpack (tlv_layout ty v ++ rest) = Err ETlvMismatch) /\
  (ty <> TLV_FLOW_LABEL -> flow_unpack (tlv_layout ty v ++ rest) = Err ETlvMismatch) /\
  (ty <> TLV_MESSAGE_TO_USER -> msg_unpack (tlv_layout ty v ++ rest) = Err ETlvMismatch) /\
  (ty <> TLV_FAULT_HANDLER -> fault_unpack (tlv_layout ty v ++ rest) = Err ETlvMismatch) /\
  (ty <> TLV_FILESTORE_REQUEST -> fsreq_unpack (tlv_layout ty v ++ rest) = Err ETlvMismatch) /\
  (ty <> TLV_FILESTORE_RESPONSE -> fsresp_unpack (tlv_layout ty v ++ rest) = Err ETlvMismatch).
Proof. exact unpack_foreign_refused. Qed.
Print Assumptions C08_foreign_type_refused_unpack.

Theorem C08_foreign_type_refused_from_tlv : forall t,
  (tlv_type t <> TLV_ENTITY_ID -> entity_from_tlv t = Err ETlvMismatch) /\
  (tlv_type t <> TLV_FLOW_LABEL -> flow_from_tlv t = Err ETlvMismatch) /\
  (tlv_type t <> TLV_MESSAGE_TO_USER -> msg_from_tlv t = Err ETlvMismatch) /\
  (tlv_type t <> TLV_FAULT_HANDLER -> fault_from_tlv t = Err ETlvMismatch) /\
  (tlv_type t <> TLV_FILESTORE_REQUEST -> fsreq_from_tlv t = Err ETlvMismatch) /\
  (tlv_type t <> TLV_FILESTORE_RESPONSE -> fsresp_from_tlv t = Err ETlvMismatch).
Proof. exact from_tlv_foreign_refused. Qed.
Print Assumptions C08_foreign_type_refused_from_tlv.

(* an octet that is no TLV type at all: ValueError from every decoder *)
Theorem C08_unknown_type_refused : forall ty l r, is_tlv_type ty = false ->
  tlv_unpack (ty :: l :: r) = Err EValue /\ entity_unpack (ty :: l :: r) = Err EValue /\
  flow_unpack (ty :: l :: r) = Err EValue /\ msg_unpack (ty :: l :: r) = Err EValue /\
  fault_unpack (ty :: l :: r) = Err EValue /\ fsreq_unpack (ty :: l :: r) = Err EValue /\
  fsresp_unpack (ty :: l :: r) = Err EValue.
Proof. exact unpack_unknown_type. Qed.
Print Assumptions C08_unknown_type_refused.

(* TlvHolder.to_<cls> with a generic TLV of another type inside: TlvTypeMissmatch *)
Theorem C08_holder_generic_foreign : forall cls t,
  is_tlv_type cls = true -> tlv_type t <> cls -> holder_to cls (HGeneric t) = Err ETlvMismatch.
Proof. exact holder_generic_foreign. Qed.
Print Assumptions C08_holder_generic_foreign.

(* ... with a concrete object inside: returned as is when of the requested class, refused
   (TypeError) otherwise; an empty holder is refused; the result is always of the class asked for.
   NOTE on the error class: `Err EType` mirrors the code.  TlvHolder.__cast_internally
   (spacepackets/cfdp/tlv/holder.py) raises the builtin TypeError, not TlvTypeMissmatch, when the
   held object is a concrete TLV of another class; the type-mismatch error (ETlvMismatch) is raised
   only on the CfdpTlv route (from_tlv / unpack: C08_foreign_type_refused_*, C08_holder_generic_foreign).
   The property text says "fails with the type-mismatch error"; for this one route the code (and
   therefore the faithful model) answers with TypeError instead -- still a refusal, never an object
   of the wrong kind (C08_holder_result_kind). *)
Theorem C08_holder_concrete : forall cls h,
  is_tlv_type cls = true -> is_concrete h = true ->
  (any_tlv_type h <> cls -> holder_to cls h = Err EType) /\
  (any_tlv_type h = cls -> holder_to cls h = Ok h).
Proof. exact holder_concrete. Qed.
Print Assumptions C08_holder_concrete.

Theorem C08_holder_result_kind : forall cls h h',
  is_tlv_type cls = true -> holder_to cls h = Ok h' -> any_tlv_type h' = cls /\ is_concrete h' = true.
Proof. exact holder_result_kind. Qed.
Print Assumptions C08_holder_result_kind.

(* no concrete decoder ever yields an object wrapping a TLV of another type *)
Theorem C08_never_wrong_kind : forall d,
  (forall t, entity_unpack d = Ok t -> tlv_type t = TLV_ENTITY_ID) /\
  (forall t, flow_unpack d = Ok t -> tlv_type t = TLV_FLOW_LABEL) /\
  (forall t, msg_unpack d = Ok t -> tlv_type t = TLV_MESSAGE_TO_USER) /\
  (forall f, fault_unpack d = Ok f -> tlv_type (fh_tlv f) = TLV_FAULT_HANDLER) /\
  (forall r, fsreq_unpack d = Ok r -> exists t, tlv_unpack d = Ok t /\ tlv_type t = TLV_FILESTORE_REQUEST) /\
  (forall r, fsresp_unpack d = Ok r -> exists t, tlv_unpack d = Ok t /\ tlv_type t = TLV_FILESTORE_RESPONSE).
Proof. exact unpack_never_wrong_kind. Qed.
Print Assumptions C08_never_wrong_kind.

(* ---------------- non-vacuity ---------------- *)
(* "ä.txt" renamed to "b": two names, non-ASCII, action code 2 *)
Example C08_ex_fsreq :
  fsreq_pack {| fq_action := 2; fq_first := [195; 164; 46; 116; 120; 116]; fq_second := [98] |} =
    Ok [0; 10; 32; 6; 195; 164; 46; 116; 120; 116; 1; 98] /\
  fsreq_unpack [0; 10; 32; 6; 195; 164; 46; 116; 120; 116; 1; 98; 7; 7] =
    Ok {| fq_action := 2; fq_first := [195; 164; 46; 116; 120; 116]; fq_second := [98] |} /\
  utf8_valid [195; 164; 46; 116; 120; 116] = true /\ second_name_present 2 = true.
Proof. repeat split; vm_compute; reflexivity. Qed.
(* append (3) not performed (0x3F), message "x" *)
Example C08_ex_fsresp :
  is_fs_status 63 = true /\ 63 / 16 = 3 /\
  fsresp_pack {| fp_action := 3; fp_status := 63; fp_first := [97]; fp_second := [98]; fp_msg := [120] |} =
    Ok [1; 7; 63; 1; 97; 1; 98; 1; 120].
Proof. repeat split; vm_compute; reflexivity. Qed.
(* a flow-label TLV offered to the entity-ID class *)
Example C08_ex_foreign :
  is_tlv_type 5 = true /\ 5 <> TLV_ENTITY_ID /\ entity_unpack [5; 1; 9] = Err ETlvMismatch /\
  holder_to TLV_ENTITY_ID (HGeneric {| tlv_type := 5; tlv_value := [9] |}) = Err ETlvMismatch /\
  holder_to TLV_ENTITY_ID (HFlow {| tlv_type := 5; tlv_value := [9] |}) = Err EType.
Proof. repeat split; try discriminate; vm_compute; reflexivity. Qed.
Example C08_ex_fault :
  fault_unpack [4; 1; 67; 9] =
  Ok {| fh_cc := 4; fh_hc := 3; fh_tlv := {| tlv_type := 4; tlv_value := [67] |} |}.
Proof. vm_compute. reflexivity. Qed.
