(* C08 — placeholder while the model is being tied; replaced by the full statements *)
From Coq Require Import ZArith List.
From SP Require Import Base.Result Base.Bytes Model.Lv Model.Tlv.
Open Scope Z_scope.
Theorem C08_lv_packet_len : forall v, lv_packet_len v = len v + 1.
Proof. reflexivity. Qed.
Print Assumptions C08_lv_packet_len.
