(* C06, part B — the Finished PDU and the Metadata PDU are encoded exactly per CCSDS
   727.0-B-5 (tables 5-7, 5-9) and round-trip, for every valid parameter set: CRC flag on and
   off, normal and large file size, every supported ID / sequence-number width, both
   transmission modes, file-store response lists and option lists of ANY length.
   Statements only; every proof is `exact <lemma>` from Proofs/FinishedProofs.v and
   Proofs/MetadataProofs.v.

   Spec/PduBSpec.v:
     fin_layout c q   = header(type 0, direction 1, data-field length) ++ [5]
                        ++ [cc*16 + dc*4 + fs] ++ responses (each a filestore-response TLV)
                        ++ [entity-ID TLV, unless cc is NO_ERROR / UNSUPPORTED_CHECKSUM_TYPE]
                        ++ [CRC-16 of all before iff CRC flag]
     md_layout c q o  = header(type 0, direction 0, ...) ++ [7] ++ [closure*64 + checksum type]
                        ++ be 4|8 file size ++ LV source name ++ LV destination name
                        ++ options (TLVs) ++ [CRC-16 iff CRC flag]
     fin_valid c q    : valid header configuration (C05), condition code 0..15 except 9/12/13,
                        delivery code 0/1, file status 0..3, every response has an action code
                        0..8, a status code of that action, valid UTF-8 names and fits a TLV;
                        fault location an entity-ID TLV of <= 255 octets; data field <= 65535.
     md_valid c q o   : closure 0/1, checksum type in {0,1,2,3,15}, file size within the 32-bit
                        (64-bit with the large-file flag) field, names <= 255 octets, every
                        option a TLV of a known type with <= 255 octets; data field <= 65535.
     fin_norm q       : what is transmitted: the second name of a one-name action and a fault
                        location together with NO_ERROR / UNSUPPORTED_CHECKSUM_TYPE are not. *)
From Coq Require Import ZArith List Bool.
From SP Require Import Base.Result Base.Bytes Base.Crc16 Base.Utf8 Model.PduHeader Spec.PduHeaderSpec
  Model.FileDirective Model.Lv Model.Tlv Spec.TlvSpec Model.Finished Model.Metadata Spec.PduBSpec
  Proofs.FinishedProofs Proofs.MetadataProofs.
From SP Require Import Proofs.RoundtripLimits.
Import ListNotations.
Open Scope Z_scope.

(* ======================= Finished ======================= *)

(* constructor: direction forced to "toward sender", data-field length = octets after the
   header; the caller's PduConfig and FinishedParams are returned unchanged (C11) *)
Theorem C06_fin_new : forall c q, fin_valid c q -> fin_new c q = Ok (fin_pdu_of c q, c, q).
Proof. exact fin_new_ok. Qed.
Print Assumptions C06_fin_new.

Theorem C06_fin_pack_layout : forall c q, fin_valid c q -> fin_pack (fin_pdu_of c q) = Ok (fin_layout c q).
Proof. exact fin_pack_layout. Qed.
Print Assumptions C06_fin_pack_layout.

(* data-field length counts everything behind the header; packet_len = number of packed octets
   (also when a fault location is given with a condition code that does not carry one) *)
Theorem C06_fin_data_field_len : forall c q, fin_valid c q ->
  let p := fin_pdu_of c q in
  fin_packet_len p = len (fin_layout c q) /\
  h_dlen (fd_hdr (fin_fdir p)) = len (fin_layout c q) - hdr_header_len (fd_hdr (fin_fdir p)) /\
  h_dlen (fd_hdr (fin_fdir p)) = 1 + len (fin_body q) + crc_octets c.
Proof. exact fin_data_field_len. Qed.
Print Assumptions C06_fin_data_field_len.

(* decode (encode ++ anything) returns the transmitted parameters: response lists of any length *)
Theorem C06_fin_unpack_pack : forall c q rest, fin_valid c q -> wf_bytes rest ->
  fin_unpack (fin_layout c q ++ rest) = Ok (fin_pdu_of c (fin_norm q)).
Proof. exact fin_unpack_pack. Qed.
Print Assumptions C06_fin_unpack_pack.

Theorem C06_fin_repack : forall c q, fin_valid c q ->
  fin_pack (fin_pdu_of c (fin_norm q)) = Ok (fin_layout c q).
Proof. exact fin_repack. Qed.
Print Assumptions C06_fin_repack.

(* the property as one chain *)
Theorem C06_fin_roundtrip : forall c q rest, fin_valid c q -> wf_bytes rest ->
  exists p b p',
    fin_new c q = Ok (p, c, q) /\ fin_pack p = Ok b /\ b = fin_layout c q /\
    fin_packet_len p = len b /\
    fin_unpack (b ++ rest) = Ok p' /\ fin_params p' = fin_norm q /\
    (fin_params_std q -> fin_eq p' p = Ok true) /\
    fin_pack p' = Ok b /\ fin_packet_len p' = len b.
Proof. exact fin_roundtrip. Qed.
Print Assumptions C06_fin_roundtrip.

(* a parameter list whose encoding exceeds the 16-bit length field is refused, never truncated *)
Theorem C06_fin_too_long_refused : forall c q, conf_valid c -> 65535 < fin_dlen c q ->
  exists e, fin_new c q = Err e.
Proof. exact fin_too_long_refused. Qed.
Print Assumptions C06_fin_too_long_refused.

(* the limit of the equality clause, stated: a fault location given together with a condition
   code that has none (NO_ERROR, UNSUPPORTED_CHECKSUM_TYPE) is accepted by the constructor but is
   not part of the PDU; the decoded object has no fault location and == with the original is
   False in both directions (the octets and the re-pack still agree, C06_fin_repack).  On the
   code: FinishedPdu(conf, FinishedParams(NO_ERROR, DATA_COMPLETE, FILE_RETAINED, [],
   EntityIdTlv(01 02))) packs to 2c 00 02 93 01 02 ff ff ff ff ff ff 05 02; unpack(...) == original
   is False, original == unpack(...) is False, unpack(...).pack() is the same octets. *)
Theorem C06_fin_eq_roundtrip_nonstd : forall c q, fin_valid c q -> ~ fin_params_std q ->
  fin_eq (fin_pdu_of c (fin_norm q)) (fin_pdu_of c q) = Ok false /\
  fin_eq (fin_pdu_of c q) (fin_pdu_of c (fin_norm q)) = Ok false /\
  fn_fault (fin_norm q) = None /\ fn_fault q <> None.
Proof. exact fin_eq_roundtrip_nonstd. Qed.
Print Assumptions C06_fin_eq_roundtrip_nonstd.
Example C06_fin_eq_roundtrip_nonstd_example :
  fin_valid (ex_conf 0 0) ex_fin_nonstd /\ ~ fin_params_std ex_fin_nonstd /\
  fin_layout (ex_conf 0 0) ex_fin_nonstd = [44; 0; 2; 147; 1; 2; 255; 255; 255; 255; 255; 255; 5; 2] /\
  exists p p', fin_new (ex_conf 0 0) ex_fin_nonstd = Ok (p, ex_conf 0 0, ex_fin_nonstd) /\
    fin_unpack (fin_layout (ex_conf 0 0) ex_fin_nonstd) = Ok p' /\
    fin_eq p' p = Ok false /\ fin_eq p p' = Ok false /\ fin_pack p' = fin_pack p.
Proof. exact fin_eq_roundtrip_nonstd_example. Qed.

(* an instance of C06_fin_too_long_refused: 260 valid filestore responses of 257 octets each *)
Example C06_fin_too_long_refused_example :
  conf_valid (ex_conf 1 0) /\ resp_valid big_resp /\ 65535 < fin_dlen (ex_conf 1 0) fin_too_long_q /\
  fin_new (ex_conf 1 0) fin_too_long_q = Err EValue.
Proof. exact fin_too_long_refused_example. Qed.

(* non-vacuity: CRC flag set, two responses (one with a non-ASCII second name), fault location *)
Example C06_fin_valid_example : fin_valid (ex_conf 1 0) ex_fin /\ fin_params_std ex_fin.
Proof. exact fin_valid_example. Qed.
Example C06_fin_layout_example :
  fin_layout (ex_conf 0 0) ex_fin =
  [44; 0; 23; 147; 1; 2; 255; 255; 255; 255; 255; 255; 5; 69;
   1; 10; 32; 1; 97; 3; 98; 195; 164; 2; 1; 2;  1; 3; 1; 0; 0;  6; 2; 1; 2].
Proof. exact fin_layout_example. Qed.

(* ======================= Metadata ======================= *)

Theorem C06_md_new : forall c q o, md_valid c q o -> md_new c q o = Ok (md_pdu_of c q o, c, q).
Proof. exact md_new_ok. Qed.
Print Assumptions C06_md_new.

Theorem C06_md_pack_layout : forall c q o, md_valid c q o -> md_pack (md_pdu_of c q o) = Ok (md_layout c q o).
Proof. exact md_pack_layout. Qed.
Print Assumptions C06_md_pack_layout.

Theorem C06_md_data_field_len : forall c q o, md_valid c q o ->
  let p := md_pdu_of c q o in
  md_packet_len p = len (md_layout c q o) /\
  h_dlen (fd_hdr (md_fdir p)) = len (md_layout c q o) - hdr_header_len (fd_hdr (md_fdir p)) /\
  h_dlen (fd_hdr (md_fdir p)) = 1 + len (md_body c q o) + crc_octets c.
Proof. exact md_data_field_len. Qed.
Print Assumptions C06_md_data_field_len.

(* option lists of any length *)
Theorem C06_md_unpack_pack : forall c q o rest, md_valid c q o -> wf_bytes rest ->
  md_unpack (md_layout c q o ++ rest) = Ok (md_decoded c q o).
Proof. exact md_unpack_pack. Qed.
Print Assumptions C06_md_unpack_pack.

Theorem C06_md_repack : forall c q o, md_valid c q o -> md_pack (md_decoded c q o) = Ok (md_layout c q o).
Proof. exact md_repack. Qed.
Print Assumptions C06_md_repack.

Theorem C06_md_roundtrip : forall c q o rest, md_valid c q o -> wf_bytes rest ->
  exists p b p',
    md_new c q o = Ok (p, c, q) /\ md_pack p = Ok b /\ b = md_layout c q o /\
    md_packet_len p = len b /\
    md_unpack (b ++ rest) = Ok p' /\
    mp_closure (md_params p') = mp_closure q /\ mp_cstype (md_params p') = mp_cstype q /\
    mp_fsize (md_params p') = mp_fsize q /\
    md_src_lv p' = name_octets (mp_src q) /\ md_dst_lv p' = name_octets (mp_dst q) /\
    opts_of (md_options p') = opts_of o /\
    md_eqb p' p = true /\ md_pack p' = Ok b /\ md_packet_len p' = len b.
Proof. exact md_roundtrip. Qed.
Print Assumptions C06_md_roundtrip.

(* the name getters of the decoded PDU give back the name (None for no / an empty name) *)
Theorem C06_md_names_decoded : forall c q o, md_valid c q o ->
  utf8_valid (name_octets (mp_src q)) = true ->
  md_name_get (md_src_lv (md_decoded c q o)) =
  Ok (match name_octets (mp_src q) with [] => None | n => Some n end).
Proof. exact md_names_decoded. Qed.
Print Assumptions C06_md_names_decoded.

(* K_too_large_fails: a file size that does not fit the field (>= 2^32 with the 32-bit flag,
   >= 2^64, negative) makes pack fail; truncated octets are never returned *)
Theorem C06_md_file_size_refused : forall p, flag (cf_large (h_conf (fd_hdr (md_fdir p)))) ->
  ~ (0 <= mp_fsize (md_params p) < 256 ^ Z.of_nat (fss_width (h_conf (fd_hdr (md_fdir p))))) ->
  exists e, md_pack p = Err e.
Proof. exact md_file_size_refused. Qed.
Print Assumptions C06_md_file_size_refused.

Theorem C06_md_name_too_long_refused : forall c q o,
  255 < len (name_octets (mp_src q)) \/ 255 < len (name_octets (mp_dst q)) ->
  md_new c q o = Err EValue.
Proof. exact md_name_too_long_refused. Qed.
Print Assumptions C06_md_name_too_long_refused.

(* equality of the decoded object with the original in BOTH directions *)
Theorem C06_md_eq_roundtrip_sym : forall c q o,
  md_eqb (md_decoded c q o) (md_pdu_of c q o) = true /\ md_eqb (md_pdu_of c q o) (md_decoded c q o) = true.
Proof. exact md_eq_roundtrip_sym. Qed.
Print Assumptions C06_md_eq_roundtrip_sym.

(* an instance of C06_md_file_size_refused: file size 2^32 with 32-bit fields *)
Example C06_md_file_size_refused_example :
  flag (cf_large (h_conf (fd_hdr (md_fdir md_too_large_p)))) /\
  ~ (0 <= mp_fsize (md_params md_too_large_p) < 256 ^ Z.of_nat (fss_width (h_conf (fd_hdr (md_fdir md_too_large_p))))) /\
  md_pack md_too_large_p = Err EValue.
Proof. exact md_file_size_refused_example. Qed.

(* non-vacuity: CRC flag, large file (size 2^32), non-ASCII source name, no destination name, two options *)
Example C06_md_valid_example : md_valid (ex_conf 1 1) ex_md ex_opts.
Proof. exact md_valid_example. Qed.
Example C06_md_layout_example :
  md_layout (ex_conf 0 1) ex_md ex_opts =
  [37; 0; 21; 147; 1; 2; 255; 255; 255; 255; 255; 255; 7; 67; 0; 0; 0; 1; 0; 0; 0; 0;
   3; 97; 195; 164; 0; 2; 2; 7; 8; 5; 0].
Proof. exact md_layout_example. Qed.
