(* C10 -- non-vacuity of the hypotheses of the generated theorems in Props/C10.v (a generated file
   holds statements only).  Every Example is proved in Proofs/XcutExamples.v or
   Proofs/PrefixExtra.v and restated here in full. *)
From Coq Require Import ZArith List.
From SP Require Import Base.Result Base.Bytes Model.SpacePacket Model.UslpHeader Model.UslpFrame Spec.UslpSpec
  Model.Cds Spec.CdsSpec Proofs.CdsProofs Model.PusTm Proofs.PusTmProofs Model.Srv1 Spec.Srv1Spec Proofs.Srv1Proofs
  Proofs.XcutExamples Proofs.PrefixExtra.
Import ListNotations.
Open Scope Z_scope.

(* frame_consistent /\ frame_len_set /\ props_match: C10_frame_prefix_rejected *)
Example C10_frame_hyps_inhabited :
  frame_consistent x_frame /\ frame_len_set x_frame /\ props_match x_frame x_props /\
  length (frame_layout (hdr_layout (hdr x_frame)) x_frame) = 24%nat /\
  frame_unpack (firstn 23 (frame_layout (hdr_layout (hdr x_frame)) x_frame))
               (ftype_of_rule (rules (ftfdf x_frame))) x_props = Err EInvalidLen.
Proof. exact frame_hyps_example. Qed.

(* base_valid, phdr_valid: C10_thdr_prefix_rejected, C10_phdr_prefix_rejected *)
Example C10_uslp_hdr_hyps_inhabited :
  base_valid x_base /\ phdr_valid x_phdr /\
  thdr_unpack (firstn 3 (thdr_layout x_base)) USLP_VERSION_NUMBER = Err EInvalidLen /\
  phdr_unpack (firstn 13 (phdr_layout x_phdr)) USLP_VERSION_NUMBER = Err EInvalidLen.
Proof. exact uslp_hdr_hyps_example. Qed.

(* srv1_args_valid / srv1_shape_ok / cfg_matches: C10_srv1_prefix_rejected *)
Example C10_srv1_hyps_inhabited :
  srv1_args_valid 2047 6 16383 7 15 65535 [1; 2; 3] ex_h (Some (2, 65535)) (Some (4, 4294967295, [9; 8; 7])) /\
  srv1_shape_ok 6 (has (Some (2, 65535))) (has (Some (4, 4294967295, [9; 8; 7]))) /\
  cfg_matches {| up_ts_len := 3; up_step := 2; up_err := 4 |} (Some (2, 65535)) (Some (4, 4294967295, [9; 8; 7])).
Proof. exact srv1_hyps_example. Qed.

(* tmsec_valid: C10_tmsec_prefix_rejected *)
Example C10_tmsec_valid_inhabited :
  tmsec_valid {| tms_version := 2; tms_ref := 3; tms_service := 17; tms_subservice := 2;
                 tms_msgcnt := 258; tms_dest := 5; tms_stamp := [1; 2; 3] |}.
Proof. exact tmsec_valid_example. Qed.
