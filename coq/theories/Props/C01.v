(* C01 — Space Packet primary header is encoded exactly per CCSDS 133.0-B-2, bijectively.
   Statements only; every proof is `exact <lemma>` from Proofs/SpacePacketProofs.v. *)
From Coq Require Import ZArith List.
From SP Require Import Base.Result Base.Bytes Model.SpacePacket Spec.SpacePacketSpec Proofs.SpacePacketProofs
  Proofs.SpacePacketRefusal.
Import ListNotations.
Open Scope Z_scope.

(* constructor: accepted exactly on the three ranges, every other integer -> ValueError *)
Theorem C01_new_accepts_iff : forall t a c d s f v,
  (0 <= a <= 2047 /\ 0 <= c <= 16383 /\ 0 <= d <= 65535 ->
     sph_new t a c d s f v =
     Ok {| ver := v; ptype := t; shf := s; apid := a; sflags := f; scount := c; dlen := d |}) /\
  (~ (0 <= a <= 2047 /\ 0 <= c <= 16383 /\ 0 <= d <= 65535) ->
     sph_new t a c d s f v = Err EValue).
Proof. exact sph_new_accepts_iff. Qed.
Print Assumptions C01_new_accepts_iff.

(* pack = the six octets of the standard, for all 2^48 headers *)
Theorem C01_pack_layout : forall h, sph_valid h -> sph_pack h = Ok (sph_layout h).
Proof. exact sph_pack_layout. Qed.
Print Assumptions C01_pack_layout.

(* decode (encode h ++ anything) = h *)
Theorem C01_unpack_pack : forall h rest, sph_valid h -> sph_unpack (sph_layout h ++ rest) = Ok h.
Proof. exact sph_unpack_pack. Qed.
Print Assumptions C01_unpack_pack.

(* any octet string of length >= 6 decodes to the fields its first six octets encode, and
   encode (decode b) = b[:6] *)
Theorem C01_pack_unpack : forall b, wf_bytes b -> (6 <= length b)%nat ->
  exists h, sph_unpack b = Ok h /\ sph_valid h /\ sph_pack h = Ok (firstn 6 b) /\
            sph_layout h = firstn 6 b.
Proof. exact sph_pack_unpack. Qed.
Print Assumptions C01_pack_unpack.

Theorem C01_unpack_short : forall b, (length b < 6)%nat -> sph_unpack b = Err ETooShort.
Proof. exact sph_unpack_short. Qed.
Print Assumptions C01_unpack_short.

Theorem C01_packet_len : forall h,
  sph_packet_len h = dlen h + 7 /\ get_total_space_packet_len_from_len_field (dlen h) = dlen h + 7.
Proof. exact sph_packet_len_spec. Qed.
Print Assumptions C01_packet_len.

(* 13-bit packet identification word *)
Theorem C01_pid_raw_bits : forall h, sph_valid h -> pid_raw (sph_pid h) = sph_word0 h mod 8192.
Proof. exact pid_raw_is_word0_low. Qed.
Print Assumptions C01_pid_raw_bits.
Theorem C01_pid_from_raw : forall raw,
  pid_from_raw raw =
  Ok {| pid_ptype := (raw / 4096) mod 2; pid_shf := (raw / 2048) mod 2; pid_apid := raw mod 2048 |}.
Proof. exact pid_from_raw_spec. Qed.
Print Assumptions C01_pid_from_raw.
Theorem C01_pid_raw_from_raw : forall raw, 0 <= raw < 8192 ->
  exists p, pid_from_raw raw = Ok p /\ pid_raw p = raw.
Proof. exact pid_raw_from_raw. Qed.
Print Assumptions C01_pid_raw_from_raw.
Theorem C01_pid_from_raw_raw : forall t s a, 0 <= t < 2 -> 0 <= s < 2 -> 0 <= a <= 2047 ->
  pid_from_raw (pid_raw {| pid_ptype := t; pid_shf := s; pid_apid := a |}) =
  Ok {| pid_ptype := t; pid_shf := s; pid_apid := a |}.
Proof. exact pid_from_raw_raw. Qed.
Print Assumptions C01_pid_from_raw_raw.

(* 16-bit sequence control word; anything outside 16 bits is refused *)
Theorem C01_psc_from_raw : forall raw,
  (0 <= raw < 65536 ->
     psc_from_raw raw = Ok {| psc_flags := raw / 16384; psc_count := raw mod 16384 |}) /\
  (~ 0 <= raw < 65536 -> psc_from_raw raw = Err EValue).
Proof. exact psc_from_raw_spec. Qed.
Print Assumptions C01_psc_from_raw.
Theorem C01_psc_raw_from_raw : forall raw, 0 <= raw < 65536 ->
  exists p, psc_from_raw raw = Ok p /\ psc_raw p = raw.
Proof. exact psc_raw_from_raw. Qed.
Print Assumptions C01_psc_raw_from_raw.
Theorem C01_psc_from_raw_raw : forall f c, 0 <= f < 4 -> 0 <= c <= 16383 ->
  psc_raw {| psc_flags := f; psc_count := c |} = f * 16384 + c /\
  psc_from_raw (psc_raw {| psc_flags := f; psc_count := c |}) =
  Ok {| psc_flags := f; psc_count := c |}.
Proof. exact psc_from_raw_raw. Qed.
Print Assumptions C01_psc_from_raw_raw.
Theorem C01_psc_raw_bits : forall h, sph_valid h -> psc_raw (sph_psc h) = sph_word1 h.
Proof. exact psc_raw_word1. Qed.
Print Assumptions C01_psc_raw_bits.

(* helper encoders agree with the same bits *)
Theorem C01_id_bytes : forall h, sph_valid h ->
  get_space_packet_id_bytes (ptype h) (shf h) (apid h) (ver h) =
  (nth 0 (sph_layout h) 0, nth 1 (sph_layout h) 0).
Proof. exact id_bytes_layout. Qed.
Print Assumptions C01_id_bytes.
Theorem C01_sp_packet_id_raw : forall h, sph_valid h ->
  get_sp_packet_id_raw (ptype h) (shf h) (apid h) = Ok (sph_word0 h mod 8192).
Proof. exact get_sp_packet_id_raw_spec. Qed.
Print Assumptions C01_sp_packet_id_raw.
Theorem C01_sp_psc_raw : forall h, sph_valid h ->
  get_sp_psc_raw (sflags h) (scount h) = Ok (sph_word1 h).
Proof. exact get_sp_psc_raw_spec. Qed.
Print Assumptions C01_sp_psc_raw.
Theorem C01_apid_from_raw : forall b, wf_bytes b -> (6 <= length b)%nat ->
  exists h, sph_unpack b = Ok h /\ get_apid_from_raw_space_packet b = Ok (apid h).
Proof. exact apid_from_raw_spec. Qed.
Print Assumptions C01_apid_from_raw.

(* generic space packet: header ++ secondary header ++ user data under the flag rules *)
Theorem C01_space_packet_pack : forall h sec ud, sph_valid h ->
  space_packet_pack h sec ud =
  match shf h, sec, ud with
  | 1, None, _ => Err EValue
  | 1, Some s, None => Ok (sph_layout h ++ s)
  | 1, Some s, Some u => Ok ((sph_layout h ++ s) ++ u)
  | _, _, None => Err EValue
  | _, _, Some u => Ok (sph_layout h ++ u)
  end.
Proof. exact space_packet_pack_spec. Qed.
Print Assumptions C01_space_packet_pack.

(* explicit decode: six octets followed by anything decode to the fields they denote *)
Theorem C01_unpack_octets : forall b0 b1 b2 b3 b4 b5 rest, wf_bytes [b0; b1; b2; b3; b4; b5] ->
  sph_unpack (b0 :: b1 :: b2 :: b3 :: b4 :: b5 :: rest) = Ok (sph_of_octets b0 b1 b2 b3 b4 b5).
Proof. exact sph_unpack_octets. Qed.
Print Assumptions C01_unpack_octets.

(* ---- "out-of-range values are refused with ValueError, not encoded" beyond the constructor ---- *)
(* the sub-object constructors PacketId / PacketSeqCtrl and the helper encoders built on them *)
Theorem C01_helpers_refuse : forall t s a f c,
  (~ 0 <= a <= 2047 -> pid_new t s a = Err EValue /\ get_sp_packet_id_raw t s a = Err EValue) /\
  (~ 0 <= c <= 16383 -> psc_new f c = Err EValue /\ get_sp_psc_raw f c = Err EValue).
Proof. exact sph_helpers_refuse. Qed.
Print Assumptions C01_helpers_refuse.

Theorem C01_from_composite_refuses : forall t a c d s f v,
  ~ (0 <= a <= 2047 /\ 0 <= c <= 16383 /\ 0 <= d <= 65535) ->
  sph_from_composite t a c d s f v = Err EValue.
Proof. exact sph_from_composite_refuses. Qed.
Print Assumptions C01_from_composite_refuses.

(* Setter path.  The attribute setters of SpacePacketHeader (apid, seq_count, data_len, and the same
   assignments through the public packet_id / packet_seq_control objects) do not validate
   (Model/SpacePacket.v, sph_apply); pack() does.  For EVERY header state, whatever was assigned: *)

(* ... an APID, sequence count or data length outside its range is refused with ValueError ... *)
Theorem C01_pack_out_of_range_refused : forall h,
  ~ (0 <= apid h <= 2047 /\ 0 <= scount h <= 16383 /\ 0 <= dlen h <= 65535) ->
  sph_pack h = Err EValue.
Proof. exact sph_pack_out_of_range. Qed.
Print Assumptions C01_pack_out_of_range_refused.

(* ... i.e. out-of-range values are never encoded: whatever pack() returns, it returns for in-range
   values only *)
Theorem C01_pack_never_encodes_out_of_range : forall h b, sph_pack h = Ok b ->
  0 <= apid h <= 2047 /\ 0 <= scount h <= 16383 /\ 0 <= dlen h <= 65535.
Proof. exact sph_pack_ok_in_range. Qed.
Print Assumptions C01_pack_never_encodes_out_of_range.

(* one assignment, from any state *)
Theorem C01_setter_apid_refused : forall h v, ~ 0 <= v <= 2047 ->
  sph_pack (sph_apply h (SoApid v)) = Err EValue.
Proof. exact sph_setter_apid_refused. Qed.
Print Assumptions C01_setter_apid_refused.
Theorem C01_setter_count_refused : forall h v, ~ 0 <= v <= 16383 ->
  sph_pack (sph_apply h (SoCount v)) = Err EValue.
Proof. exact sph_setter_count_refused. Qed.
Print Assumptions C01_setter_count_refused.
Theorem C01_setter_dlen_refused : forall h v, ~ 0 <= v <= 65535 ->
  sph_pack (sph_apply h (SoDlen v)) = Err EValue.
Proof. exact sph_setter_dlen_refused. Qed.
Print Assumptions C01_setter_dlen_refused.

(* every header state reachable from a constructed header by ANY setter history (any integer
   assigned to APID / count / data length; packet type, secondary header flag and sequence flags
   within their enumerations, version as constructed): pack() = the standard's six octets of the
   current values when APID, count and data length are in range (and they decode back), ValueError
   otherwise; a later in-range assignment heals the object *)
Theorem C01_setter_history_pack : forall ops h, sph_valid h -> Forall sph_op_rest_in_range ops ->
  let h' := fold_left sph_apply ops h in
  (sph_in_range h' -> sph_pack h' = Ok (sph_layout h') /\
                      forall rest, sph_unpack (sph_layout h' ++ rest) = Ok h') /\
  (~ sph_in_range h' -> sph_pack h' = Err EValue) /\
  (forall b, sph_pack h' = Ok b -> sph_in_range h' /\ b = sph_layout h').
Proof. exact sph_history_pack_iff. Qed.
Print Assumptions C01_setter_history_pack.

(* SpacePacket.pack() packs the header first: the same refusal whatever the parts are *)
Theorem C01_space_packet_out_of_range_refused : forall h sec ud, ~ sph_in_range h ->
  space_packet_pack h sec ud = Err EValue.
Proof. exact space_packet_pack_out_of_range. Qed.
Print Assumptions C01_space_packet_out_of_range_refused.

(* the former counterexamples (h.apid = 2048 -> 08 00 .., h.seq_count = 16384 -> 00 00 40 00 ..,
   h.data_len = 65536 -> struct.error) are refused now, and an in-range assignment heals *)
Example C01_setter_witnesses :
  sph_pack (sph_apply sph_zero (SoApid 2048)) = Err EValue /\
  sph_pack (sph_apply sph_zero (SoCount 16384)) = Err EValue /\
  sph_pack (sph_apply sph_zero (SoDlen 65536)) = Err EValue /\
  sph_pack (fold_left sph_apply [SoApid 2048; SoPack; SoApid 2047] sph_zero) = Ok [7; 255; 0; 0; 0; 0].
Proof. exact sph_setter_witnesses. Qed.

(* non-vacuity of sph_valid *)
Example C01_valid_inhabited :
  sph_valid {| ver := 5; ptype := 1; shf := 1; apid := 2047; sflags := 2; scount := 16383; dlen := 65535 |}.
Proof. exact sph_valid_example. Qed.
