(* C11, stated limit (hand-written companion of the generated Props/C11.v; statement + `exact` +
   Print Assumptions only).  The audit proposed "the caller's parameter object is the same after
   construct, after pack and after any PDU-side setter".  Construct and pack: proved
   (C11_fin_new_caller_objects, C11_md_new_caller_objects, C11_fd_new_coherent; pack returns octets
   only).  Setters: true for MetadataPdu (C11_run_ops_md_params: the names live in the PDU's own
   LVs), FALSE for FinishedPdu and FileDataPdu, which keep a reference to the caller's
   FinishedParams / FileDataParams and write through it - by design of the classes, and not claimed
   by the property ("constructing or packing ... never modifies").  On the code:
   params = FinishedParams(NO_ERROR, ...); p = FinishedPdu(conf, params); p.pack() leaves
   params.condition_code = 0; p.condition_code = FILE_SIZE_ERROR makes params.condition_code = 6
   (p.finished_params is params); fp = FileDataParams(b"ab", 0, None); f = FileDataPdu(conf, fp);
   f.file_data = b"xyz" makes fp.file_data = b"xyz". *)
From Coq Require Import ZArith List Bool.
From SP Require Import Base.Result Base.Bytes Model.PduHeader Model.Finished Model.FileData
  Proofs.CallerParamsLimit.
Import ListNotations.
Open Scope Z_scope.

Theorem C11_setter_keeps_caller_params_refuted :
  (exists c q p p', fin_new c q = Ok (p, c, q) /\ fin_params p = q /\
     fin_set_cc p 6 = Ok p' /\ fin_params p' <> q) /\
  (exists c q p p', fd_new c q = Ok (p, c) /\ fd_params p = q /\
     fd_set_data p [120; 121; 122] = Ok p' /\ fd_params p' <> q).
Proof. exact setter_keeps_caller_params_refuted. Qed.
Print Assumptions C11_setter_keeps_caller_params_refuted.
