(* C15 — request IDs and service-1 verification reports identify the telecommand exactly.
   Statements only; proofs are in Proofs/ReqIdProofs.v and Proofs/Srv1Proofs.v.
   Model: Model/ReqId.v, Model/Fields.v, Model/Srv1.v (+ Model/PusTm.v, Model/SpacePacket.v);
   independent layouts: Spec/Srv1Spec.v (reqid_layout, reqid_u32, enum_layout, srv1_src_layout,
   srv1_layout, srv1_shape_ok). *)
From Coq Require Import ZArith List Bool.
From SP Require Import Base.Result Base.Bytes Model.SpacePacket Model.PusTc Model.PusTm Model.ReqId Model.Fields Model.Srv1
  Spec.SpacePacketSpec Spec.PusSpec Spec.Srv1Spec Proofs.ReqIdProofs Proofs.Srv1Proofs Proofs.PusHeaderRefusal.
Import ListNotations.
Open Scope Z_scope.

(* ---------------- request ID ---------------- *)

(* packed form = the first four octets of the telecommand's space packet header *)
Theorem C15_reqid_pack_layout : forall h, sph_valid h ->
  reqid_pack (reqid_from_sph h) = Ok (firstn 4 (sph_layout h)).
Proof. exact reqid_pack_layout. Qed.
Print Assumptions C15_reqid_pack_layout.

(* 32-bit integer form = those 32 bits, = the packed octets read big-endian *)
Theorem C15_reqid_as_u32 : forall h, sph_valid h ->
  reqid_as_u32 (reqid_from_sph h) = reqid_u32 h /\
  reqid_as_u32 (reqid_from_sph h) = be_decode (reqid_layout h).
Proof. exact reqid_as_u32_spec. Qed.
Print Assumptions C15_reqid_as_u32.

(* decoded form: decode (packed ++ anything) = the request ID *)
Theorem C15_reqid_unpack_pack : forall h rest, sph_valid h ->
  reqid_unpack (reqid_layout h ++ rest) = Ok (reqid_from_sph h).
Proof. exact reqid_unpack_layout. Qed.
Print Assumptions C15_reqid_unpack_pack.

(* any four octets: decoded, re-packed and integer forms agree *)
Theorem C15_reqid_pack_unpack : forall b, wf_bytes b -> (4 <= length b)%nat ->
  exists r, reqid_unpack b = Ok r /\ reqid_valid r /\ reqid_pack r = Ok (firstn 4 b) /\
            reqid_as_u32 r = be_decode (firstn 4 b).
Proof. exact reqid_pack_unpack. Qed.
Print Assumptions C15_reqid_pack_unpack.

(* all 2^32 values *)
Theorem C15_reqid_all_u32 : forall v, 0 <= v < 4294967296 ->
  exists r, reqid_unpack (be_encode 4 v) = Ok r /\ reqid_valid r /\
            reqid_as_u32 r = v /\ reqid_pack r = Ok (be_encode 4 v) /\
            r = reqid_from_sph (reqid_fields_of_u32 v).
Proof. exact reqid_u32_all. Qed.
Print Assumptions C15_reqid_all_u32.

(* equal (and hash equal) iff the same 32 bits *)
Theorem C15_reqid_eq_iff : forall r1 r2, reqid_valid r1 -> reqid_valid r2 ->
  (reqid_eqb r1 r2 = true <-> r1 = r2) /\
  (reqid_eqb r1 r2 = true <-> reqid_pack r1 = reqid_pack r2) /\
  (reqid_eqb r1 r2 = true <-> reqid_as_u32 r1 = reqid_as_u32 r2) /\
  (reqid_hash r1 = reqid_hash r2 <-> reqid_eqb r1 r2 = true).
Proof. exact reqid_eq_iff. Qed.
Print Assumptions C15_reqid_eq_iff.

Theorem C15_reqid_unpack_short : forall b, (length b < 4)%nat -> reqid_unpack b = Err ETooShort.
Proof. exact reqid_unpack_short. Qed.
Print Assumptions C15_reqid_unpack_short.

Example C15_reqid_nonvacuous :
  sph_valid {| ver := 5; ptype := 1; shf := 1; apid := 2047; sflags := 3; scount := 16383; dlen := 65535 |} /\
  reqid_pack (reqid_from_sph {| ver := 5; ptype := 1; shf := 1; apid := 2047; sflags := 3; scount := 16383; dlen := 65535 |})
  = Ok [191; 255; 255; 255].
Proof. split; [unfold sph_valid; cbn; repeat split; discriminate | reflexivity]. Qed.

(* ---------------- PacketFieldEnum ---------------- *)

(* only 8 / 16 / 32 / 64 bits; the answer is the width in octets *)
Theorem C15_check_pfc_iff : forall pfc n, check_pfc pfc = Ok n <-> enum_width_ok n /\ pfc = n * 8.
Proof. exact check_pfc_iff. Qed.
Print Assumptions C15_check_pfc_iff.

Theorem C15_check_pfc_refuses : forall pfc, pfc <> 8 -> pfc <> 16 -> pfc <> 32 -> pfc <> 64 ->
  check_pfc pfc = Err EValue /\ forall v, pfe_new pfc v = Err EValue.
Proof. intros pfc H1 H2 H3 H4. split; [exact (check_pfc_refuses pfc H1 H2 H3 H4) | intros v; exact (pfe_new_refuses pfc v H1 H2 H3 H4)]. Qed.
Print Assumptions C15_check_pfc_refuses.

(* pack = big-endian on exactly the declared width, len = the width *)
Theorem C15_pfe_pack_layout : forall w v, enum_fits w v ->
  pfe_pack (mk_pfe w v) = Ok (enum_layout w v) /\ pfe_len (mk_pfe w v) = Ok w.
Proof. exact pfe_pack_layout. Qed.
Print Assumptions C15_pfe_pack_layout.

Theorem C15_pfe_pack_refuses : forall w v, enum_width_ok w -> ~ (0 <= v < 256 ^ w) ->
  exists e, pfe_pack (mk_pfe w v) = Err e.
Proof. exact pfe_pack_refuses. Qed.
Print Assumptions C15_pfe_pack_refuses.

Theorem C15_pfe_unpack_pack : forall w v rest, enum_fits w v ->
  pfe_unpack (enum_layout w v ++ rest) (w * 8) = Ok (mk_pfe w v).
Proof. exact pfe_unpack_layout. Qed.
Print Assumptions C15_pfe_unpack_pack.

Theorem C15_pfe_pack_unpack : forall d w, wf_bytes d -> enum_width_ok w -> w <= len d ->
  exists f, pfe_unpack d (w * 8) = Ok f /\ pfe_pack f = Ok (slice d 0 w) /\
            enum_fits w (pfe_val f) /\ pfe_val f = be_decode (slice d 0 w).
Proof. exact pfe_pack_unpack. Qed.
Print Assumptions C15_pfe_pack_unpack.

Example C15_enum_fits_nonvacuous : enum_fits 8 18446744073709551615 /\ enum_fits 1 0.
Proof. unfold enum_fits, enum_width_ok. repeat split; try (right; right; right; reflexivity); try (left; reflexivity); discriminate. Qed.

(* ---------------- FailureNotice / VerificationParams ---------------- *)

Theorem C15_fn_pack_layout : forall w c d, enum_fits w c ->
  fn_pack (mk_fn w c d) = Ok (enum_layout w c ++ d) /\ fn_len (mk_fn w c d) = Ok (w + len d).
Proof. exact fn_pack_layout. Qed.
Print Assumptions C15_fn_pack_layout.

Theorem C15_fn_unpack_pack : forall w c d, enum_fits w c ->
  fn_unpack (enum_layout w c ++ d) w (Some (len d)) = Ok (mk_fn w c d) /\
  fn_unpack (enum_layout w c ++ d) w None = Ok (mk_fn w c d).
Proof. exact fn_unpack_layout. Qed.
Print Assumptions C15_fn_unpack_pack.

(* D-C15-1 repaired: failure notices compare by code and data *)
Theorem C15_fn_eq_iff : forall a b, fn_eqb a b = true <-> a = b.
Proof. exact fn_eqb_iff. Qed.
Print Assumptions C15_fn_eq_iff.

(* source data = request ID ++ step ID ++ failure code ++ failure data, each on its declared width *)
Theorem C15_srv1_source_data_layout : forall h step fail, sph_valid h -> step_fits step -> fail_fits fail ->
  vp_pack (mk_vp h step fail) = Ok (srv1_src_layout h step fail) /\
  vp_len (mk_vp h step fail) = Ok (len (srv1_src_layout h step fail)).
Proof. exact vp_pack_layout. Qed.
Print Assumptions C15_srv1_source_data_layout.

(* parameter sets are accepted exactly when they match the subservice (1..8) *)
Theorem C15_vp_verify_iff : forall v k, 1 <= k <= 8 ->
  (srv1_shape_ok k (has (vp_step v)) (has (vp_fn v)) -> vp_verify v k = Ok tt) /\
  (~ srv1_shape_ok k (has (vp_step v)) (has (vp_fn v)) -> vp_verify v k = Err EVerifParams).
Proof. exact vp_verify_iff. Qed.
Print Assumptions C15_vp_verify_iff.

Theorem C15_vp_eq_iff : forall a b, reqid_valid (vp_req a) -> reqid_valid (vp_req b) ->
  (vp_eq a b = Ok true <-> a = b).
Proof. exact vp_eq_true_iff. Qed.
Print Assumptions C15_vp_eq_iff.

(* ---------------- Service1Tm ---------------- *)

(* a mismatching parameter set is refused by the constructor with InvalidVerifParams *)
Theorem C15_srv1_param_mismatch_refused : forall apid k seq version ref dest stamp h step fail,
  1 <= k <= 8 -> 0 <= apid <= 2047 -> 0 <= seq <= 16383 -> len stamp <= 65527 ->
  ~ srv1_shape_ok k (has step) (has fail) ->
  srv1_new apid k stamp (Some (mk_vp h step fail)) seq version ref dest = Err EVerifParams.
Proof. exact srv1_param_mismatch_refused. Qed.
Print Assumptions C15_srv1_param_mismatch_refused.

(* construct, pack, decode with matching widths (any timestamp length, any failure data, any
   trailing octets): layout, same parameters, identical re-pack, equality both ways *)
Theorem C15_srv1_unpack_pack : forall apid k seq version ref dest stamp h step fail cfg rest,
  1 <= k <= 8 -> srv1_args_valid apid k seq version ref dest stamp h step fail ->
  srv1_shape_ok k (has step) (has fail) -> cfg_matches cfg step fail -> up_ts_len cfg = len stamp ->
  let src := srv1_src_layout h step fail in
  let octets := srv1_layout apid k seq version ref dest stamp h step fail in
  let s := {| s1_tm := mk_tm 1 k apid seq 0 ref dest version stamp src None; s1_vp := mk_vp h step fail |} in
  let u := {| s1_tm := mk_tm 1 k apid seq 0 ref dest version stamp src
                             (Some (crc_octets (tm_body 1 k apid seq 0 ref dest version stamp src)));
              s1_vp := mk_vp h step fail |} in
  srv1_new apid k stamp (Some (mk_vp h step fail)) seq version ref dest = Ok s /\
  srv1_pack s = Ok (octets, u) /\
  srv1_unpack (octets ++ rest) cfg = Ok u /\
  srv1_pack u = Ok (octets, u) /\
  srv1_eq u s = Ok true /\ srv1_eq s u = Ok true.
Proof. exact srv1_unpack_pack. Qed.
Print Assumptions C15_srv1_unpack_pack.

(* what the accessors of the decoded report answer *)
Theorem C15_srv1_decoded_accessors : forall apid k seq version ref dest stamp h step fail crc,
  srv1_shape_ok k (has step) (has fail) ->
  let u := {| s1_tm := mk_tm 1 k apid seq 0 ref dest version stamp (srv1_src_layout h step fail) crc;
              s1_vp := mk_vp h step fail |} in
  vp_req (s1_vp u) = reqid_from_sph h /\
  vp_step (s1_vp u) = match step with None => None | Some (w, v) => Some (mk_pfe w v) end /\
  srv1_error_code u = Ok (match fail with None => None | Some (w, c, _) => Some (mk_pfe w c) end) /\
  match vp_fn (s1_vp u), fail with
  | None, None => True | Some f, Some (_, _, d) => fn_data f = d | _, _ => False end.
Proof. exact srv1_decoded_accessors. Qed.
Print Assumptions C15_srv1_decoded_accessors.

(* decoding the source data of ANY telemetry object whose source data is the layout (from_tm) *)
Theorem C15_srv1_unpack_raw_layout : forall t vp0 k h step fail cfg,
  1 <= k <= 8 -> sph_valid h -> step_fits step -> fail_fits fail ->
  srv1_shape_ok k (has step) (has fail) -> cfg_matches cfg step fail ->
  tm_src t = srv1_src_layout h step fail -> tms_subservice (tm_sec t) = k ->
  vp_step vp0 = None -> vp_fn vp0 = None ->
  unpack_raw_tm {| s1_tm := t; s1_vp := vp0 |} cfg = Ok {| s1_tm := t; s1_vp := mk_vp h step fail |}.
Proof. exact unpack_raw_tm_layout. Qed.
Print Assumptions C15_srv1_unpack_raw_layout.

(* the telecommand: PusTc(...) has an in-range header and its request ID is the first four
   octets of its own packed header; create_*_tm carries exactly that request ID *)
Theorem C15_reqid_of_tc : forall service subservice apid app seq source_id ack t,
  tc_new service subservice apid app seq source_id ack = Ok t ->
  sph_valid (tc_sph t) /\
  sph_pack (tc_sph t) = Ok (sph_layout (tc_sph t)) /\
  reqid_pack (reqid_from_sph (tc_sph t)) = Ok (firstn 4 (sph_layout (tc_sph t))).
Proof. exact reqid_of_tc. Qed.
Print Assumptions C15_reqid_of_tc.

Theorem C15_srv1_create_for_tc : forall service subservice tcapid app seq source_id ack t k apid stamp step fail,
  tc_new service subservice tcapid app seq source_id ack = Ok t ->
  1 <= k <= 8 -> srv1_args_valid apid k 0 0 0 0 stamp (tc_sph t) step fail ->
  srv1_shape_ok k (has step) (has fail) ->
  srv1_create k apid (tc_sph t) (pfe_of step) (fn_of fail) stamp =
  Ok {| s1_tm := mk_tm 1 k apid 0 0 0 0 0 stamp (srv1_src_layout (tc_sph t) step fail) None;
        s1_vp := mk_vp (tc_sph t) step fail |}.
Proof. exact srv1_create_for_tc. Qed.
Print Assumptions C15_srv1_create_for_tc.

(* non-vacuity of the hypotheses of C15_srv1_unpack_pack: a step-failure report, version 5,
   2-octet step ID 0xffff, 4-octet code 0xffffffff, three octets of failure data, 3-octet timestamp *)
(* the report's telemetry header pushed out of range (report.pus_tm.space_packet_header.seq_count =
   20000): Service1Tm.pack() refuses with ValueError, nothing is encoded *)
Theorem C15_srv1_header_out_of_range_refused : forall s, ~ sph_in_range (tm_sph (s1_tm s)) ->
  srv1_pack s = Err EValue.
Proof. exact srv1_header_out_of_range_refused. Qed.
Print Assumptions C15_srv1_header_out_of_range_refused.

Example C15_srv1_nonvacuous :
  srv1_args_valid 2047 6 16383 7 15 65535 [1; 2; 3] ex_h (Some (2, 65535)) (Some (4, 4294967295, [9; 8; 7])) /\
  srv1_shape_ok 6 (has (Some (2, 65535))) (has (Some (4, 4294967295, [9; 8; 7]))) /\
  cfg_matches {| up_ts_len := 3; up_step := 2; up_err := 4 |} (Some (2, 65535)) (Some (4, 4294967295, [9; 8; 7])).
Proof. exact srv1_args_valid_ex. Qed.
