(* C15 — request IDs and service-1 reports.  Snapshot before the repairs. *)
From Coq Require Import ZArith List Bool.
From SP Require Import Base.Result Base.Bytes Model.Fields Model.Srv1 Proofs.Srv1Proofs.
Open Scope Z_scope.

Theorem C15_check_pfc_only_octet_widths_refuted : exists pfc n, check_pfc pfc = Ok n /\ pfc <> 8 * n.
Proof. exact check_pfc_only_octet_widths_refuted. Qed.
Print Assumptions C15_check_pfc_only_octet_widths_refuted.

Theorem C15_srv1_decoded_equal_refuted : d_c15_1_witness = true.
Proof. exact srv1_decoded_equal_refuted. Qed.
Print Assumptions C15_srv1_decoded_equal_refuted.
