From Coq Require Import ZArith List Bool.
