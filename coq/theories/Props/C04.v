(* C04 — a corrupted CRC-protected packet is never accepted as valid.
   Statements only.  burst16 e (Base/Crc16Burst.v): e is not all-zero and all its set bits lie
   within 16 consecutive bit positions (1-, 2- or 3-octet window at any octet position) -- this
   contains every single-bit flip and every burst of up to 16 adjacent bits.  The corrupted packet
   is xor_bytes p e. *)
From Coq Require Import ZArith List.
From SP Require Import Base.Result Base.Bytes Base.Crc16 Base.Crc16Facts Base.Crc16Burst
  Model.SpacePacket Model.PusTc Model.PusTm Spec.PusSpec Model.PduHeader Spec.PduHeaderSpec
  Model.FileData Spec.FileDataSpec Proofs.CorruptProofs Proofs.CorruptCfdp
  Model.Eof Model.Ack Model.Prompt Model.KeepAlive Spec.PduASpec Proofs.EofProofs Proofs.DirectiveCrc Proofs.PduACrc
  Model.Finished Model.Metadata Spec.PduBSpec Proofs.CorruptCfdpB.
Import ListNotations.
Open Scope Z_scope.

(* --- the checksum algebra, for messages of ANY length --- *)
Theorem C04_crc_residue : forall m, wf_bytes m -> crc16 (m ++ be_encode 2 (crc16 m)) = 0.
Proof. exact crc_residue. Qed.
Print Assumptions C04_crc_residue.

Theorem C04_crc_affine : forall m e, wf_bytes m -> wf_bytes e -> length e = length m ->
  crc16 (xor_bytes m e) = Z.lxor (crc16 m) (crc0 e).
Proof. exact crc_affine. Qed.
Print Assumptions C04_crc_affine.

Theorem C04_crc_detects_burst16 : forall m e, wf_bytes m -> burst16 e -> length e = length m ->
  crc16 (xor_bytes m e) <> crc16 m.
Proof. exact crc_detects_burst16. Qed.
Print Assumptions C04_crc_detects_burst16.

Theorem C04_single_bit_is_burst : forall p j q, 0 <= j < 8 -> burst16 (repeat 0 p ++ [2 ^ j] ++ repeat 0 q).
Proof. exact single_bit_burst. Qed.
Print Assumptions C04_single_bit_is_burst.

(* --- PUS telecommand: any burst outside the length field (octets 4, 5) is rejected with a
       documented error, and the standalone check gives the same verdict --- *)
Theorem C04_tc_corrupt_rejected : forall service subservice apid seq source_id ack app e,
  tc_args_valid service subservice apid seq source_id ack app ->
  let p := tc_layout service subservice apid seq source_id ack app in
  burst16 e -> length e = length p -> len_field_untouched e ->
  (exists x, tc_unpack (xor_bytes p e) = Err x /\ documented x = true) /\
  check_pus_crc (xor_bytes p e) = false.
Proof. exact tc_corrupt_rejected. Qed.
Print Assumptions C04_tc_corrupt_rejected.

(* whatever fields were set or changed before packing, pack() output passes the check *)
Theorem C04_tc_pack_always_valid : forall t p t', wf_bytes (tc_app t) -> tc_pack t = Ok (p, t') ->
  check_pus_crc p = true.
Proof. exact tc_pack_always_valid. Qed.
Print Assumptions C04_tc_pack_always_valid.

(* --- PUS telemetry, any timestamp length handed to the decoder --- *)
Theorem C04_tm_corrupt_rejected : forall service subservice apid seq msgcnt ref dest version stamp src e ts,
  tm_args_valid service subservice apid seq msgcnt ref dest version stamp src -> 0 <= ts ->
  let p := tm_layout service subservice apid seq msgcnt ref dest version stamp src in
  burst16 e -> length e = length p -> len_field_untouched e ->
  (exists x, tm_unpack (xor_bytes p e) ts = Err x /\ documented x = true) /\
  check_pus_crc (xor_bytes p e) = false.
Proof. exact tm_corrupt_rejected. Qed.
Print Assumptions C04_tm_corrupt_rejected.

Theorem C04_tm_pack_always_valid : forall t p t', wf_bytes (tms_stamp (tm_sec t)) -> wf_bytes (tm_src t) ->
  tm_pack t = Ok (p, t') -> check_pus_crc p = true.
Proof. exact tm_pack_always_valid. Qed.
Print Assumptions C04_tm_pack_always_valid.

(* --- CFDP: generic core (any PDU decoder that is total and accepts a CRC-flagged PDU only when
       the CRC over its declared length is zero), instantiated for the File Data PDU.  Protected:
       octets 1-3 and the CRC flag bit. --- *)
Theorem C04_fd_corrupt_rejected : forall c q e,
  fd_valid c q -> cf_crc c = 1 ->
  let p := fd_layout c q in
  burst16 e -> length e = length p -> cfdp_untouched e ->
  exists x, fd_unpack (xor_bytes p e) = Err x /\ documented x = true.
Proof. exact fd_corrupt_rejected. Qed.
Print Assumptions C04_fd_corrupt_rejected.

(* --- the directive PDUs (same protected positions) --- *)
Theorem C04_eof_corrupt_rejected : forall c q e, eof_wf c q -> cf_crc c = 1 ->
  burst16 e -> length e = length (eof_layout c q) -> length_fields_untouched e ->
  exists x, eof_unpack (xor_bytes (eof_layout c q) e) = Err x /\ documented x = true.
Proof. exact eof_corrupt_rejected. Qed.
Print Assumptions C04_eof_corrupt_rejected.
Theorem C04_ack_corrupt_rejected : forall c q e, ack_valid c q -> cf_crc c = 1 ->
  burst16 e -> length e = length (ack_layout c q) -> length_fields_untouched e ->
  exists x, ack_unpack (xor_bytes (ack_layout c q) e) = Err x /\ documented x = true.
Proof. exact ack_corrupt_rejected. Qed.
Print Assumptions C04_ack_corrupt_rejected.
Theorem C04_prompt_corrupt_rejected : forall c rr e, prompt_valid c rr -> cf_crc c = 1 ->
  burst16 e -> length e = length (prompt_layout c rr) -> length_fields_untouched e ->
  exists x, prompt_unpack (xor_bytes (prompt_layout c rr) e) = Err x /\ documented x = true.
Proof. exact prompt_corrupt_rejected. Qed.
Print Assumptions C04_prompt_corrupt_rejected.
Theorem C04_ka_corrupt_rejected : forall c v e, conf_valid c -> cf_crc c = 1 ->
  burst16 e -> length e = length (ka_layout c v) -> length_fields_untouched e ->
  exists x, ka_unpack (xor_bytes (ka_layout c v) e) = Err x /\ documented x = true.
Proof. exact ka_corrupt_rejected. Qed.
Print Assumptions C04_ka_corrupt_rejected.
Theorem C04_fin_corrupt_rejected : forall c q e, fin_valid c q -> cf_crc c = 1 ->
  let p := fin_layout c q in
  burst16 e -> length e = length p -> cfdp_untouched e ->
  exists x, fin_unpack (xor_bytes p e) = Err x /\ documented x = true.
Proof. exact fin_corrupt_rejected. Qed.
Print Assumptions C04_fin_corrupt_rejected.
Theorem C04_md_corrupt_rejected : forall c q o e, md_valid c q o -> cf_crc c = 1 ->
  let p := md_layout c q o in
  burst16 e -> length e = length p -> cfdp_untouched e ->
  exists x, md_unpack (xor_bytes p e) = Err x /\ documented x = true.
Proof. exact md_corrupt_rejected. Qed.
Print Assumptions C04_md_corrupt_rejected.

(* --- refuted part, protocol-inherent: flipping the CRC flag itself (a single-bit error that
       leaves octets 1-3 alone) makes the decoder skip verification; the PDU is accepted with the
       CRC trailer folded into the file data.  Known finding C04/<Pdu>.unpack/crc-flag-bit. --- *)
Theorem C04_pdu_crcflag_flip_refuted :
  fd_valid kf_conf kf_params /\ cf_crc kf_conf = 1 /\
  burst16 kf_flip /\ length kf_flip = length (fd_layout kf_conf kf_params) /\
  nth 1 kf_flip 0 = 0 /\ nth 2 kf_flip 0 = 0 /\ nth 3 kf_flip 0 = 0 /\
  exists p', fd_unpack (xor_bytes (fd_layout kf_conf kf_params) kf_flip) = Ok p' /\
             length (fp_data (fd_params p')) = 3%nat.
Proof. exact pdu_crcflag_flip_refuted. Qed.
Print Assumptions C04_pdu_crcflag_flip_refuted.

Example C04_burst_inhabited : burst16 (repeat 0 7 ++ [2 ^ 3] ++ repeat 0 8) /\
  len_field_untouched (repeat 0 7 ++ [2 ^ 3] ++ repeat 0 8).
Proof. exact burst_example. Qed.
