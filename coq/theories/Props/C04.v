(* C04 — a corrupted CRC-protected packet is never accepted as valid.
   Statements only.  burst16 e (Base/Crc16Burst.v): e is not all-zero and all its set bits lie
   within 16 consecutive bit positions (1-, 2- or 3-octet window at any octet position) -- this
   contains every single-bit flip and every burst of up to 16 adjacent bits.  The corrupted packet
   is xor_bytes p e. *)
From Coq Require Import ZArith List.
From SP Require Import Base.Result Base.Bytes Base.Crc16 Base.Crc16Facts Base.Crc16Burst
  Model.SpacePacket Model.PusTc Model.PusTm Spec.PusSpec Model.PduHeader Spec.PduHeaderSpec
  Model.FileData Spec.FileDataSpec Proofs.CorruptProofs Proofs.CorruptCfdp
  Model.Eof Model.Ack Model.Prompt Model.KeepAlive Spec.PduASpec Proofs.EofProofs Proofs.DirectiveCrc Proofs.PduACrc
  Model.Finished Model.Metadata Spec.PduBSpec Proofs.CorruptCfdpB
  Model.Nak Spec.PduCSpec Proofs.NakCrc Model.FileDirective Model.Factory Proofs.CfdpPackCrc Proofs.CorruptFactory.
Import ListNotations.
Open Scope Z_scope.

(* --- the checksum algebra, for messages of ANY length --- *)
Theorem C04_crc_residue : forall m, wf_bytes m -> crc16 (m ++ be_encode 2 (crc16 m)) = 0.
Proof. exact crc_residue. Qed.
Print Assumptions C04_crc_residue.

Theorem C04_crc_affine : forall m e, wf_bytes m -> wf_bytes e -> length e = length m ->
  crc16 (xor_bytes m e) = Z.lxor (crc16 m) (crc0 e).
Proof. exact crc_affine. Qed.
Print Assumptions C04_crc_affine.

Theorem C04_crc_detects_burst16 : forall m e, wf_bytes m -> burst16 e -> length e = length m ->
  crc16 (xor_bytes m e) <> crc16 m.
Proof. exact crc_detects_burst16. Qed.
Print Assumptions C04_crc_detects_burst16.

Theorem C04_single_bit_is_burst : forall p j q, 0 <= j < 8 -> burst16 (repeat 0 p ++ [2 ^ j] ++ repeat 0 q).
Proof. exact single_bit_burst. Qed.
Print Assumptions C04_single_bit_is_burst.

(* --- PUS telecommand: any burst outside the length field (octets 4, 5) is rejected with a
       documented error, and the standalone check gives the same verdict --- *)
Theorem C04_tc_corrupt_rejected : forall service subservice apid seq source_id ack app e,
  tc_args_valid service subservice apid seq source_id ack app ->
  let p := tc_layout service subservice apid seq source_id ack app in
  burst16 e -> length e = length p -> len_field_untouched e ->
  (exists x, tc_unpack (xor_bytes p e) = Err x /\ documented x = true) /\
  check_pus_crc (xor_bytes p e) = false.
Proof. exact tc_corrupt_rejected. Qed.
Print Assumptions C04_tc_corrupt_rejected.

(* whatever fields were set or changed before packing, pack() output passes the check *)
Theorem C04_tc_pack_always_valid : forall t p t', wf_bytes (tc_app t) -> tc_pack t = Ok (p, t') ->
  check_pus_crc p = true.
Proof. exact tc_pack_always_valid. Qed.
Print Assumptions C04_tc_pack_always_valid.

(* --- PUS telemetry, any timestamp length handed to the decoder --- *)
Theorem C04_tm_corrupt_rejected : forall service subservice apid seq msgcnt ref dest version stamp src e ts,
  tm_args_valid service subservice apid seq msgcnt ref dest version stamp src -> 0 <= ts ->
  let p := tm_layout service subservice apid seq msgcnt ref dest version stamp src in
  burst16 e -> length e = length p -> len_field_untouched e ->
  (exists x, tm_unpack (xor_bytes p e) ts = Err x /\ documented x = true) /\
  check_pus_crc (xor_bytes p e) = false.
Proof. exact tm_corrupt_rejected. Qed.
Print Assumptions C04_tm_corrupt_rejected.

Theorem C04_tm_pack_always_valid : forall t p t', wf_bytes (tms_stamp (tm_sec t)) -> wf_bytes (tm_src t) ->
  tm_pack t = Ok (p, t') -> check_pus_crc p = true.
Proof. exact tm_pack_always_valid. Qed.
Print Assumptions C04_tm_pack_always_valid.

(* --- CFDP: generic core (any PDU decoder that is total and accepts a CRC-flagged PDU only when
       the CRC over its declared length is zero), instantiated for the File Data PDU.  Protected:
       octets 1-3 and the CRC flag bit. --- *)
Theorem C04_fd_corrupt_rejected : forall c q e,
  fd_valid c q -> cf_crc c = 1 ->
  let p := fd_layout c q in
  burst16 e -> length e = length p -> cfdp_untouched e ->
  exists x, fd_unpack (xor_bytes p e) = Err x /\ documented x = true.
Proof. exact fd_corrupt_rejected. Qed.
Print Assumptions C04_fd_corrupt_rejected.

(* --- the directive PDUs (same protected positions) --- *)
Theorem C04_eof_corrupt_rejected : forall c q e, eof_wf c q -> cf_crc c = 1 ->
  burst16 e -> length e = length (eof_layout c q) -> length_fields_untouched e ->
  exists x, eof_unpack (xor_bytes (eof_layout c q) e) = Err x /\ documented x = true.
Proof. exact eof_corrupt_rejected. Qed.
Print Assumptions C04_eof_corrupt_rejected.
Theorem C04_ack_corrupt_rejected : forall c q e, ack_valid c q -> cf_crc c = 1 ->
  burst16 e -> length e = length (ack_layout c q) -> length_fields_untouched e ->
  exists x, ack_unpack (xor_bytes (ack_layout c q) e) = Err x /\ documented x = true.
Proof. exact ack_corrupt_rejected. Qed.
Print Assumptions C04_ack_corrupt_rejected.
Theorem C04_prompt_corrupt_rejected : forall c rr e, prompt_valid c rr -> cf_crc c = 1 ->
  burst16 e -> length e = length (prompt_layout c rr) -> length_fields_untouched e ->
  exists x, prompt_unpack (xor_bytes (prompt_layout c rr) e) = Err x /\ documented x = true.
Proof. exact prompt_corrupt_rejected. Qed.
Print Assumptions C04_prompt_corrupt_rejected.
Theorem C04_ka_corrupt_rejected : forall c v e, conf_valid c -> cf_crc c = 1 ->
  burst16 e -> length e = length (ka_layout c v) -> length_fields_untouched e ->
  exists x, ka_unpack (xor_bytes (ka_layout c v) e) = Err x /\ documented x = true.
Proof. exact ka_corrupt_rejected. Qed.
Print Assumptions C04_ka_corrupt_rejected.
Theorem C04_fin_corrupt_rejected : forall c q e, fin_valid c q -> cf_crc c = 1 ->
  let p := fin_layout c q in
  burst16 e -> length e = length p -> cfdp_untouched e ->
  exists x, fin_unpack (xor_bytes p e) = Err x /\ documented x = true.
Proof. exact fin_corrupt_rejected. Qed.
Print Assumptions C04_fin_corrupt_rejected.
Theorem C04_md_corrupt_rejected : forall c q o e, md_valid c q o -> cf_crc c = 1 ->
  let p := md_layout c q o in
  burst16 e -> length e = length p -> cfdp_untouched e ->
  exists x, md_unpack (xor_bytes p e) = Err x /\ documented x = true.
Proof. exact md_corrupt_rejected. Qed.
Print Assumptions C04_md_corrupt_rejected.

Theorem C04_nak_corrupt_rejected : forall c q e, nak_valid c q -> cf_crc c = 1 ->
  burst16 e -> length e = length (nak_layout c q) -> length_fields_untouched e ->
  exists x, nak_unpack (xor_bytes (nak_layout c q) e) = Err x /\ documented x = true.
Proof. exact nak_corrupt_rejected. Qed.
Print Assumptions C04_nak_corrupt_rejected.

(* --- "every uncorrupted packed packet passes the check ... whatever fields were set or changed
       before packing", CFDP: for EVERY object of each PDU class (valid parameters or not, after
       any setter history), whenever pack() returns octets b and the object's header carries the
       CRC flag, the CRC-16 over b is zero -- which is the check verify_length_and_checksum makes.
       `wf_bytes b`: the returned value is a bytearray (cells 0..255), the standing convention for
       octet strings.  (That the decoder then returns the same object: C06 round trips.) --- *)
Theorem C04_fd_pack_always_valid : forall p b, FileData.fd_pack p = Ok b ->
  cf_crc (h_conf (FileData.fd_hdr p)) = 1 -> wf_bytes b -> crc16 b = 0.
Proof. exact fd_pack_crc_valid. Qed.
Print Assumptions C04_fd_pack_always_valid.
Theorem C04_eof_pack_always_valid : forall p b, eof_pack p = Ok b ->
  cf_crc (h_conf (FileDirective.fd_hdr (eof_fd p))) = 1 -> wf_bytes b -> crc16 b = 0.
Proof. exact eof_pack_crc_valid. Qed.
Print Assumptions C04_eof_pack_always_valid.
Theorem C04_ack_pack_always_valid : forall p b, ack_pack p = Ok b ->
  cf_crc (h_conf (FileDirective.fd_hdr (ack_fd p))) = 1 -> wf_bytes b -> crc16 b = 0.
Proof. exact ack_pack_crc_valid. Qed.
Print Assumptions C04_ack_pack_always_valid.
Theorem C04_prompt_pack_always_valid : forall p b, prompt_pack p = Ok b ->
  cf_crc (h_conf (FileDirective.fd_hdr (pr_fd p))) = 1 -> wf_bytes b -> crc16 b = 0.
Proof. exact prompt_pack_crc_valid. Qed.
Print Assumptions C04_prompt_pack_always_valid.
Theorem C04_ka_pack_always_valid : forall p b, ka_pack p = Ok b ->
  cf_crc (h_conf (FileDirective.fd_hdr (ka_fd p))) = 1 -> wf_bytes b -> crc16 b = 0.
Proof. exact ka_pack_crc_valid. Qed.
Print Assumptions C04_ka_pack_always_valid.
Theorem C04_fin_pack_always_valid : forall p b, fin_pack p = Ok b ->
  cf_crc (h_conf (FileDirective.fd_hdr (fin_fdir p))) = 1 -> wf_bytes b -> crc16 b = 0.
Proof. exact fin_pack_crc_valid. Qed.
Print Assumptions C04_fin_pack_always_valid.
Theorem C04_md_pack_always_valid : forall p b, md_pack p = Ok b ->
  cf_crc (h_conf (FileDirective.fd_hdr (md_fdir p))) = 1 -> wf_bytes b -> crc16 b = 0.
Proof. exact md_pack_crc_valid. Qed.
Print Assumptions C04_md_pack_always_valid.
Theorem C04_nak_pack_always_valid : forall p b, nak_pack p = Ok b ->
  cf_crc (nk_conf p) = 1 -> wf_bytes b -> crc16 b = 0.
Proof. exact nak_pack_crc_valid. Qed.
Print Assumptions C04_nak_pack_always_valid.
(* all eight at once, as PduHolder.pack sees them (pdu_crc_flag p = the flag above, per class) *)
Theorem C04_pdu_pack_always_valid : forall p b, pdu_pack p = Ok b -> pdu_crc_flag p = 1 ->
  wf_bytes b -> crc16 b = 0.
Proof. exact pdu_pack_crc_valid. Qed.
Print Assumptions C04_pdu_pack_always_valid.
Example C04_pack_always_valid_inhabited : exists p b,
  FileData.fd_new ex_conf {| FileData.fp_data := [7]; FileData.fp_offset := 0; FileData.fp_meta := None |} = Ok (p, ex_conf) /\
  pdu_pack (PFileData p) = Ok b /\ pdu_crc_flag (PFileData p) = 1 /\ wf_bytes b /\ length b = 14%nat.
Proof. exact pack_crc_example. Qed.

(* --- the same corruption clause through PduFactory.from_raw, all eight kinds.  Excluded
       positions: octets 1, 2, 3 and bit 1 (value 2, the CRC flag) of octet 0 -- nothing else; in
       particular the PDU-type bit of octet 0 and the directive-code octet MAY be hit.
       no_object r: r is a documented error, or the factory's None (returned without an exception
       when the directive code has become 0x0A, which it does not dispatch on; see
       fac_none_example in Proofs/CorruptFactory.v) -- never `Ok (Some pdu)`. --- *)
Theorem C04_factory_no_object_def : forall r, no_object r <->
  match r with Ok (Some _) => False | Ok None => True | Err x => documented x = true end.
Proof. intros r. reflexivity. Qed.
Print Assumptions C04_factory_no_object_def.
Theorem C04_fac_fd_corrupt_rejected : forall c q e, fd_valid c q -> cf_crc c = 1 ->
  burst16 e -> length e = length (fd_layout c q) -> cfdp_untouched e ->
  no_object (fac_from_raw (xor_bytes (fd_layout c q) e)).
Proof. exact fac_fd_corrupt_rejected. Qed.
Print Assumptions C04_fac_fd_corrupt_rejected.
Theorem C04_fac_eof_corrupt_rejected : forall c q e, eof_valid c q -> cf_crc c = 1 ->
  burst16 e -> length e = length (eof_layout c q) -> cfdp_untouched e ->
  no_object (fac_from_raw (xor_bytes (eof_layout c q) e)).
Proof. exact fac_eof_corrupt_rejected. Qed.
Print Assumptions C04_fac_eof_corrupt_rejected.
Theorem C04_fac_ack_corrupt_rejected : forall c q e, ack_valid c q -> cf_crc c = 1 ->
  burst16 e -> length e = length (ack_layout c q) -> cfdp_untouched e ->
  no_object (fac_from_raw (xor_bytes (ack_layout c q) e)).
Proof. exact fac_ack_corrupt_rejected. Qed.
Print Assumptions C04_fac_ack_corrupt_rejected.
Theorem C04_fac_prompt_corrupt_rejected : forall c rr e, prompt_valid c rr -> cf_crc c = 1 ->
  burst16 e -> length e = length (prompt_layout c rr) -> cfdp_untouched e ->
  no_object (fac_from_raw (xor_bytes (prompt_layout c rr) e)).
Proof. exact fac_prompt_corrupt_rejected. Qed.
Print Assumptions C04_fac_prompt_corrupt_rejected.
Theorem C04_fac_ka_corrupt_rejected : forall c v e, ka_valid c v -> cf_crc c = 1 ->
  burst16 e -> length e = length (ka_layout c v) -> cfdp_untouched e ->
  no_object (fac_from_raw (xor_bytes (ka_layout c v) e)).
Proof. exact fac_ka_corrupt_rejected. Qed.
Print Assumptions C04_fac_ka_corrupt_rejected.
Theorem C04_fac_fin_corrupt_rejected : forall c q e, fin_valid c q -> cf_crc c = 1 ->
  burst16 e -> length e = length (fin_layout c q) -> cfdp_untouched e ->
  no_object (fac_from_raw (xor_bytes (fin_layout c q) e)).
Proof. exact fac_fin_corrupt_rejected. Qed.
Print Assumptions C04_fac_fin_corrupt_rejected.
Theorem C04_fac_md_corrupt_rejected : forall c q o e, md_valid c q o -> cf_crc c = 1 ->
  burst16 e -> length e = length (md_layout c q o) -> cfdp_untouched e ->
  no_object (fac_from_raw (xor_bytes (md_layout c q o) e)).
Proof. exact fac_md_corrupt_rejected. Qed.
Print Assumptions C04_fac_md_corrupt_rejected.
Theorem C04_fac_nak_corrupt_rejected : forall c q e, nak_valid c q -> cf_crc c = 1 ->
  burst16 e -> length e = length (nak_layout c q) -> cfdp_untouched e ->
  no_object (fac_from_raw (xor_bytes (nak_layout c q) e)).
Proof. exact fac_nak_corrupt_rejected. Qed.
Print Assumptions C04_fac_nak_corrupt_rejected.
(* the None outcome exists: one flipped bit turns the NAK code 08 into 0A *)
Example C04_fac_none_inhabited :
  let L := nak_layout fx_conf {| np_start := 0; np_end := 1; np_segs := [] |} in
  let e := repeat 0 7 ++ [2] ++ repeat 0 10 in
  burst16 e /\ length e = length L /\ cfdp_untouched e /\ fac_from_raw (xor_bytes L e) = Ok None.
Proof. exact fac_none_example. Qed.

(* --- refuted part, protocol-inherent: flipping the CRC flag itself (a single-bit error that
       leaves octets 1-3 alone) makes the decoder skip verification; the PDU is accepted with the
       CRC trailer folded into the file data.  Known finding C04/<Pdu>.unpack/crc-flag-bit. --- *)
Theorem C04_pdu_crcflag_flip_refuted :
  fd_valid kf_conf kf_params /\ cf_crc kf_conf = 1 /\
  burst16 kf_flip /\ length kf_flip = length (fd_layout kf_conf kf_params) /\
  nth 1 kf_flip 0 = 0 /\ nth 2 kf_flip 0 = 0 /\ nth 3 kf_flip 0 = 0 /\
  exists p', fd_unpack (xor_bytes (fd_layout kf_conf kf_params) kf_flip) = Ok p' /\
             length (fp_data (fd_params p')) = 3%nat.
Proof. exact pdu_crcflag_flip_refuted. Qed.
Print Assumptions C04_pdu_crcflag_flip_refuted.

(* the same hole for directive PDUs.  ACK 2a 00 05 00 01 03 02 06 40 01 ed 1c with the flag bit
   flipped is accepted (the CRC octets are ignored), also by the factory.  EOF: the trailer is read
   as the optional fault-location TLV, so acceptance needs a CRC that looks like an entity-ID TLV:
   file size 48178 gives 06 00. *)
Theorem C04_ack_crcflag_flip_refuted :
  ack_valid fx_conf fx_ack /\ cf_crc fx_conf = 1 /\
  let e := 2 :: repeat 0 11 in
  burst16 e /\ length e = length (ack_layout fx_conf fx_ack) /\
  nth 1 e 0 = 0 /\ nth 2 e 0 = 0 /\ nth 3 e 0 = 0 /\
  exists p', ack_unpack (xor_bytes (ack_layout fx_conf fx_ack) e) = Ok p' /\
             ack_code p' = 4 /\ ack_status p' = 1 /\
             cf_crc (h_conf (FileDirective.fd_hdr (ack_fd p'))) = 0 /\
             fac_from_raw (xor_bytes (ack_layout fx_conf fx_ack) e) = Ok (Some (PAck p')).
Proof. exact ack_crcflag_flip_refuted. Qed.
Print Assumptions C04_ack_crcflag_flip_refuted.
Theorem C04_eof_crcflag_flip_refuted :
  eof_valid fx_conf fx_eof /\ cf_crc fx_conf = 1 /\
  let e := 2 :: repeat 0 18 in
  burst16 e /\ length e = length (eof_layout fx_conf fx_eof) /\
  nth 1 e 0 = 0 /\ nth 2 e 0 = 0 /\ nth 3 e 0 = 0 /\
  exists p', eof_unpack (xor_bytes (eof_layout fx_conf fx_eof) e) = Ok p' /\
             eof_size p' = 48178 /\ cf_crc (h_conf (FileDirective.fd_hdr (eof_fd p'))) = 0 /\
             eof_fault p' = Some {| Tlv.tlv_type := 6; Tlv.tlv_value := [] |}.
Proof. exact eof_crcflag_flip_refuted. Qed.
Print Assumptions C04_eof_crcflag_flip_refuted.

Example C04_burst_inhabited : burst16 (repeat 0 7 ++ [2 ^ 3] ++ repeat 0 8) /\
  len_field_untouched (repeat 0 7 ++ [2 ^ 3] ++ repeat 0 8).
Proof. exact burst_example. Qed.
