(* Detection of every error burst that fits 16 consecutive bit positions, for messages
   of any length: windows of 1, 2 and 3 octets are swept completely by the kernel. *)
From Coq Require Import ZArith List Bool Lia ZifyBool.
From SP Require Import Base.Result Base.Bytes Base.BytesFacts Base.Crc16 Base.Crc16Facts.
Import ListNotations.
Open Scope Z_scope.
Ltac Zify.zify_post_hook ::= Z.to_euclidean_division_equations.

(* ---------- windows: every non-zero pattern inside 16 consecutive bit positions ---------- *)
Inductive window16 : bytes -> Prop :=
| W1 a : 0 < a < 256 -> window16 [a]
| W2 v : 0 < v < 65536 -> window16 (be_encode 2 v)
| W3 o P : 0 <= o < 8 -> 0 < P < 65536 -> window16 (be_encode 3 (P * 2 ^ (8 - o))).

Definition chk_w1 (a : Z) : bool := negb (crc0 [a] =? 0).
Lemma w1_sweep : forallb chk_w1 (zrange 1 255) = true.
Proof. vm_compute. reflexivity. Qed.
Definition chk_w2 (v : Z) : bool := negb (crc0 (be_encode 2 v) =? 0).
Lemma w2_sweep : forallb chk_w2 (zrange 1 65535) = true.
Proof. vm_compute. reflexivity. Qed.
Definition chk_w3 (o : Z) : bool :=
  forallb (fun P => negb (crc0 (be_encode 3 (P * 2 ^ (8 - o))) =? 0)) (zrange 1 65535).
Lemma w3_sweep : forallb chk_w3 (zrange 0 8) = true.
Proof. vm_cast_no_check (eq_refl true). Qed.

Lemma window_nonzero w : window16 w -> crc0 w <> 0.
Proof.
  intros [a Ha | v Hv | o P Ho HP].
  - pose proof (sweep _ 1 255 ltac:(lia) w1_sweep a ltac:(lia)) as S. unfold chk_w1 in S. lia.
  - pose proof (sweep _ 1 65535 ltac:(lia) w2_sweep v ltac:(lia)) as S. unfold chk_w2 in S. lia.
  - pose proof (sweep _ 0 8 ltac:(lia) w3_sweep o ltac:(lia)) as S. unfold chk_w3 in S.
    pose proof (sweep _ 1 65535 ltac:(lia) S P ltac:(lia)) as S2. cbv beta in S2. lia.
Qed.

Lemma window_wf w : window16 w -> wf_bytes w.
Proof.
  intros [a Ha | v Hv | o P Ho HP]; try apply be_encode_wf.
  constructor; [lia|constructor].
Qed.

(* an error pattern whose set bits all lie within 16 consecutive bit positions *)
Definition burst16 (e : bytes) : Prop :=
  exists p w q, e = repeat 0 p ++ w ++ repeat 0 q /\ window16 w.

Lemma repeat0_wf n : wf_bytes (repeat 0 n).
Proof. induction n; cbn; constructor; [lia|assumption]. Qed.

Lemma burst16_wf e : burst16 e -> wf_bytes e.
Proof.
  intros (p & w & q & -> & W). rewrite !wf_bytes_app.
  repeat split; [apply repeat0_wf|apply window_wf; assumption|apply repeat0_wf].
Qed.

Theorem crc0_burst_nonzero e : burst16 e -> crc0 e <> 0.
Proof.
  intros (p & w & q & -> & W). unfold crc0. rewrite !crc_from_app, crc_from_zeros_0.
  apply crc_from_zeros_nz; [|exact (window_nonzero w W)].
  apply crc_from_range; [unfold in16; lia|apply window_wf; assumption].
Qed.

Theorem crc_detects_burst16 m e : wf_bytes m -> burst16 e -> length e = length m ->
  crc16 (xor_bytes m e) <> crc16 m.
Proof.
  intros Wm B L. rewrite crc_affine by (try assumption; apply burst16_wf; assumption).
  pose proof (crc0_burst_nonzero e B) as NZ. intros E.
  assert (X : Z.lxor (crc16 m) (Z.lxor (crc16 m) (crc0 e)) = crc0 e).
  { rewrite <- Z.lxor_assoc, Z.lxor_nilpotent. apply Z.lxor_0_l. }
  rewrite E, Z.lxor_nilpotent in X. congruence.
Qed.

(* single-bit flips are bursts *)
Lemma single_bit_burst p j q : 0 <= j < 8 -> burst16 (repeat 0 p ++ [2 ^ j] ++ repeat 0 q).
Proof.
  intros Hj. exists p, [2 ^ j], q. split; [reflexivity|]. constructor.
  split; [apply Z.pow_pos_nonneg; lia|].
  change 256 with (2 ^ 8). apply Z.pow_lt_mono_r; lia.
Qed.

