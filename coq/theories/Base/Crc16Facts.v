(* Algebra of CRC-16/CCITT-FALSE for messages of ANY length: range, residue
   (message ++ its CRC has CRC 0), linearity over xor, and detection of every error
   burst that fits 16 consecutive bit positions. *)
From Coq Require Import ZArith List Bool Lia ZifyBool.
From SP Require Import Base.Result Base.Bytes Base.BytesFacts Base.Crc16.
Import ListNotations.
Open Scope Z_scope.

Ltac Zify.zify_post_hook ::= Z.to_euclidean_division_equations.
Definition in16 (s : Z) : Prop := 0 <= s < 65536.

(* ---------- xor on bounded numbers ---------- *)
Lemma lxor_lt_pow2 a b n : 0 <= n -> 0 <= a < 2 ^ n -> 0 <= b < 2 ^ n -> 0 <= Z.lxor a b < 2 ^ n.
Proof.
  intros Hn Ha Hb. split; [apply Z.lxor_nonneg; lia|].
  assert (E : Z.lxor a b = Z.land (Z.lxor a b) (Z.ones n)).
  { apply Z.bits_inj'. intros m Hm. rewrite Z.land_spec, Z.lxor_spec.
    destruct (Z_lt_le_dec m n) as [L|G].
    - rewrite Z.ones_spec_low by lia. rewrite andb_true_r. reflexivity.
    - rewrite Z.ones_spec_high by lia. rewrite andb_false_r.
      rewrite <- (Z.mod_small a (2 ^ n)) by lia. rewrite <- (Z.mod_small b (2 ^ n)) by lia.
      rewrite !Z.mod_pow2_bits_high by lia. reflexivity. }
  rewrite E, Z.land_ones by lia. apply Z.mod_pos_bound. apply Z.pow_pos_nonneg; lia.
Qed.

Lemma lxor4 ta tb A B :
  Z.lxor (Z.lxor ta tb) (Z.lxor A B) = Z.lxor (Z.lxor ta A) (Z.lxor tb B).
Proof.
  apply Z.bits_inj'. intros n Hn. rewrite !Z.lxor_spec.
  destruct (Z.testbit ta n), (Z.testbit tb n), (Z.testbit A n), (Z.testbit B n); reflexivity.
Qed.

(* ---------- F on 16-bit states: range, F 0 = 0, injectivity at 0, linearity ---------- *)
Definition chk_F_range (s : Z) : bool := (0 <=? crc_F s) && (crc_F s <? 65536).
Lemma F_range_sweep : forallb chk_F_range (zrange 0 65536) = true.
Proof. vm_compute. reflexivity. Qed.
Lemma F_range s : in16 s -> in16 (crc_F s).
Proof.
  intros H. pose proof (sweep _ 0 65536 ltac:(lia) F_range_sweep s ltac:(unfold in16 in H; lia)) as P.
  unfold chk_F_range in P. unfold in16. lia.
Qed.

Definition chk_F_zero (s : Z) : bool := negb (crc_F s =? 0) || (s =? 0).
Lemma F_zero_sweep : forallb chk_F_zero (zrange 0 65536) = true.
Proof. vm_compute. reflexivity. Qed.
Lemma F_zero_inj s : in16 s -> crc_F s = 0 -> s = 0.
Proof.
  intros H E. pose proof (sweep _ 0 65536 ltac:(lia) F_zero_sweep s ltac:(unfold in16 in H; lia)) as P.
  unfold chk_F_zero in P. rewrite E in P. cbn in P. lia.
Qed.
Lemma F_0 : crc_F 0 = 0. Proof. reflexivity. Qed.

(* "xor of per-bit constants": any function of this shape commutes with xor *)
Fixpoint lin (l : list (Z * Z)) (s : Z) : Z :=
  match l with
  | [] => 0
  | (i, c) :: r => Z.lxor (if Z.testbit s i then c else 0) (lin r s)
  end.
Lemma lin_xor l a b : lin l (Z.lxor a b) = Z.lxor (lin l a) (lin l b).
Proof.
  induction l as [|[i c] r IH]; cbn [lin]; [reflexivity|].
  rewrite IH, <- lxor4. f_equal. rewrite Z.lxor_spec.
  destruct (Z.testbit a i), (Z.testbit b i); cbn [xorb];
    rewrite ?Z.lxor_0_r, ?Z.lxor_0_l, ?Z.lxor_nilpotent; reflexivity.
Qed.
Definition F_basis : list (Z * Z) :=
  Eval vm_compute in map (fun i => (i, crc_F (2 ^ i))) (zrange 0 16).
Definition chk_F_lin (s : Z) : bool := crc_F s =? lin F_basis s.
Lemma F_lin_sweep : forallb chk_F_lin (zrange 0 65536) = true.
Proof. vm_compute. reflexivity. Qed.
Lemma F_lin s : in16 s -> crc_F s = lin F_basis s.
Proof.
  intros H. pose proof (sweep _ 0 65536 ltac:(lia) F_lin_sweep s ltac:(unfold in16 in H; lia)) as P.
  unfold chk_F_lin in P. lia.
Qed.
Lemma in16_lxor a b : in16 a -> in16 b -> in16 (Z.lxor a b).
Proof. unfold in16. intros. change 65536 with (2 ^ 16). apply lxor_lt_pow2; lia. Qed.
Lemma F_xor a b : in16 a -> in16 b -> crc_F (Z.lxor a b) = Z.lxor (crc_F a) (crc_F b).
Proof.
  intros Ha Hb. rewrite (F_lin _ (in16_lxor _ _ Ha Hb)), lin_xor, <- !F_lin by assumption.
  reflexivity.
Qed.

(* ---------- the byte update ---------- *)
Lemma shl8_in16 b : 0 <= b < 256 -> in16 (Z.shiftl b 8).
Proof. intros H. rewrite shiftl_mul by lia. unfold in16. change (2 ^ 8) with 256. lia. Qed.
Lemma upd_range s b : in16 s -> 0 <= b < 256 -> in16 (crc_upd s b).
Proof. intros Hs Hb. unfold crc_upd. apply F_range, in16_lxor; [assumption|apply shl8_in16; assumption]. Qed.

Lemma crc_from_nil s : crc_from s [] = s. Proof. reflexivity. Qed.
Lemma crc_from_cons s b m : crc_from s (b :: m) = crc_from (crc_upd s b) m. Proof. reflexivity. Qed.

Lemma crc_from_range m : forall s, in16 s -> wf_bytes m -> in16 (crc_from s m).
Proof.
  induction m as [|b m IH]; intros s Hs W; [rewrite crc_from_nil; assumption|].
  rewrite crc_from_cons. inversion W; subst. apply IH; [apply upd_range; assumption|assumption].
Qed.
Lemma crc16_range m : wf_bytes m -> in16 (crc16 m).
Proof. apply crc_from_range. unfold in16; lia. Qed.

Lemma crc_from_app s a b : crc_from s (a ++ b) = crc_from (crc_from s a) b.
Proof. unfold crc_from. apply fold_left_app. Qed.

(* ---------- residue ---------- *)
Definition chk_residue (s : Z) : bool := crc_upd (crc_upd s (s / 256)) (s mod 256) =? 0.
Lemma residue_sweep : forallb chk_residue (zrange 0 65536) = true.
Proof. vm_compute. reflexivity. Qed.

Lemma crc16_app m t : crc16 (m ++ t) = crc_from (crc16 m) t.
Proof. unfold crc16. apply crc_from_app. Qed.

Lemma residue_state s : in16 s -> crc_from s [(s / 256) mod 256; s mod 256] = 0.
Proof.
  intros R. unfold in16 in R.
  pose proof (sweep _ 0 65536 ltac:(lia) residue_sweep s ltac:(lia)) as P.
  unfold chk_residue in P. apply Z.eqb_eq in P.
  replace ((s / 256) mod 256) with (s / 256) by (symmetry; apply Z.mod_small; lia).
  rewrite !crc_from_cons, crc_from_nil. exact P.
Qed.

Theorem crc_residue m : wf_bytes m -> crc16 (m ++ be_encode 2 (crc16 m)) = 0.
Proof.
  intros W. rewrite crc16_app, be_encode_2. apply residue_state, crc16_range, W.
Qed.

(* ---------- affinity: flipping bits e changes the CRC by crc0 e ---------- *)
Lemma upd_xor s t x y : in16 s -> in16 t -> 0 <= x < 256 -> 0 <= y < 256 ->
  crc_upd (Z.lxor s t) (Z.lxor x y) = Z.lxor (crc_upd s x) (crc_upd t y).
Proof.
  intros Hs Ht Hx Hy. unfold crc_upd. rewrite Z.shiftl_lxor, lxor4.
  apply F_xor; apply in16_lxor; try assumption; apply shl8_in16; assumption.
Qed.

Lemma crc_from_xor m : forall e s t, in16 s -> in16 t -> wf_bytes m -> wf_bytes e ->
  length e = length m ->
  crc_from (Z.lxor s t) (xor_bytes m e) = Z.lxor (crc_from s m) (crc_from t e).
Proof.
  induction m as [|x m IH]; intros [|y e] s t Hs Ht Wm We L;
    try discriminate; cbn [xor_bytes]; [rewrite !crc_from_nil; reflexivity|].
  rewrite !crc_from_cons.
  inversion Wm; inversion We; subst. rewrite upd_xor by assumption.
  apply IH; try assumption; try (apply upd_range; assumption). cbn in L. lia.
Qed.

Theorem crc_affine m e : wf_bytes m -> wf_bytes e -> length e = length m ->
  crc16 (xor_bytes m e) = Z.lxor (crc16 m) (crc0 e).
Proof.
  intros Wm We L. unfold crc16, crc0.
  rewrite <- crc_from_xor by (try assumption; unfold in16; lia).
  rewrite Z.lxor_0_r. reflexivity.
Qed.

(* ---------- zero runs ---------- *)
Lemma crc_from_zeros_0 n : crc_from 0 (repeat 0 n) = 0.
Proof.
  induction n; cbn [repeat]; [reflexivity|]. rewrite crc_from_cons.
  replace (crc_upd 0 0) with 0 by reflexivity. exact IHn.
Qed.

Lemma crc_from_zeros_nz n : forall s, in16 s -> s <> 0 -> crc_from s (repeat 0 n) <> 0.
Proof.
  induction n as [|n IH]; intros s Hs Hnz; cbn [repeat]; [rewrite crc_from_nil; assumption|].
  rewrite crc_from_cons.
  apply IH; [apply upd_range; [assumption|lia]|].
  unfold crc_upd. replace (Z.shiftl 0 8) with 0 by reflexivity.
  rewrite Z.lxor_0_r. intros E. apply Hnz, F_zero_inj; assumption.
Qed.

(* catalogue check value *)
Example crc16_check : crc16 [49; 50; 51; 52; 53; 54; 55; 56; 57] = 10673.  (* 0x29B1 *)
Proof. reflexivity. Qed.
