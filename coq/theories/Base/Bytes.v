(* Octet strings (Python bytes/bytearray) as list Z, indexing and slicing with
   Python's semantics for non-negative indices, big-endian integers, and the
   struct.pack / struct.unpack formats the code uses.  Definitions only. *)
From Coq Require Import ZArith List Bool.
From SP Require Import Base.Result.
Import ListNotations.
Open Scope Z_scope.

Definition bytes := list Z.

Definition is_byte (b : Z) : bool := (0 <=? b) && (b <? 256).
Definition wf_bytes (l : bytes) : Prop := Forall (fun b => 0 <= b < 256) l.
Definition wf_bytesb (l : bytes) : bool := forallb is_byte l.

Definition len (l : bytes) : Z := Z.of_nat (length l).

(* d[i] for i >= 0 (the code never uses negative literal indices on inputs
   except data[-2:], modelled by slice_last).  Out of range -> IndexError. *)
Definition py_get (d : bytes) (i : Z) : res Z :=
  if i <? 0 then Err EIndex else
  match nth_error d (Z.to_nat i) with Some b => Ok b | None => Err EIndex end.

(* d[a:b] for 0 <= a, 0 <= b, with clamping (never raises). *)
Definition slice (d : bytes) (a b : Z) : bytes :=
  firstn (Z.to_nat (b - a)) (skipn (Z.to_nat a) d).
(* d[a:] *)
Definition slice_from (d : bytes) (a : Z) : bytes := skipn (Z.to_nat a) d.
(* d[:b] *)
Definition slice_to (d : bytes) (b : Z) : bytes := firstn (Z.to_nat b) d.
(* d[-k:] for k > 0 *)
Definition slice_last (d : bytes) (k : Z) : bytes :=
  skipn (length d - Z.to_nat k) d.
(* d[:-k] for k > 0 *)
Definition slice_drop_last (d : bytes) (k : Z) : bytes :=
  firstn (length d - Z.to_nat k) d.

(* big-endian, most significant octet first *)
Fixpoint be_encode (n : nat) (v : Z) : bytes :=
  match n with
  | O => []
  | S k => (v / 256 ^ Z.of_nat k) mod 256 :: be_encode k v
  end.

Fixpoint be_decode (l : bytes) : Z :=
  match l with
  | [] => 0
  | b :: r => b * 256 ^ Z.of_nat (length r) + be_decode r
  end.

Fixpoint le_encode (n : nat) (v : Z) : bytes :=
  match n with
  | O => []
  | S k => v mod 256 :: le_encode k (v / 256)
  end.

(* struct.pack("!B"/"!H"/"!I"/"!Q", v): struct.error when out of range *)
Definition struct_pack (n : nat) (v : Z) : res bytes :=
  if (0 <=? v) && (v <? 256 ^ Z.of_nat n) then Ok (be_encode n v) else Err EStruct.
(* struct.unpack(fmt, s)[0]: struct.error when len(s) <> size *)
Definition struct_unpack (n : nat) (s : bytes) : res Z :=
  if Nat.eqb (length s) n then Ok (be_decode s) else Err EStruct.

(* int.to_bytes(n, "big") : OverflowError when it does not fit / negative *)
Definition int_to_bytes (n : nat) (v : Z) : res bytes :=
  if (0 <=? v) && (v <? 256 ^ Z.of_nat n) then Ok (be_encode n v) else Err EOverflow.

(* bytearray.append(x): ValueError unless 0 <= x < 256 *)
Definition ba_append (l : bytes) (x : Z) : res bytes :=
  if is_byte x then Ok (l ++ [x]) else Err EValue.

(* octet-wise xor of a packet with an error pattern (C04) *)
Fixpoint xor_bytes (a b : bytes) : bytes :=
  match a, b with
  | x :: a', y :: b' => Z.lxor x y :: xor_bytes a' b'
  | _, _ => a
  end.

Fixpoint bytes_eqb (a b : bytes) : bool :=
  match a, b with
  | [], [] => true
  | x :: a', y :: b' => (x =? y) && bytes_eqb a' b'
  | _, _ => false
  end.

(* enumeration used by finite sweeps: [s; s+1; ...; s+n-1] *)
Fixpoint zrange_nat (n : nat) (s : Z) : list Z :=
  match n with O => [] | S k => s :: zrange_nat k (s + 1) end.
Definition zrange (s n : Z) : list Z := zrange_nat (Z.to_nat n) s.
