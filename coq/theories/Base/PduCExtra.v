(* Helpers of the pduC slice (NAK PDU, PDU factory) that are not in Base/BytesFacts.v /
   Base/Crc16Facts.v: uniqueness of the CRC trailer, list helpers. *)
From Coq Require Import ZArith List Bool Lia.
From SP Require Import Base.Result Base.Bytes Base.BytesFacts Base.Crc16 Base.Crc16Facts Base.Crc16Burst.
Import ListNotations.
Open Scope Z_scope.

(* two lists of equal length in front: the concatenations agree iff the parts do *)
Lemma app_eq_len {A} (a a' b b' : list A) : length a = length a' -> a ++ b = a' ++ b' -> a = a' /\ b = b'.
Proof.
  revert a'. induction a as [|x a IH]; intros [|y a'] L E; try discriminate.
  - split; [reflexivity|exact E].
  - cbn in E. injection E as -> E. cbn in L. destruct (IH a' ltac:(lia) E) as [-> ->]. split; reflexivity.
Qed.

Lemma lxor_byte a b : 0 <= a < 256 -> 0 <= b < 256 -> 0 <= Z.lxor a b < 256.
Proof. intros. apply (lxor_lt_pow2 a b 8); lia. Qed.

(* the only two octets that bring the CRC register to zero are the CRC itself, big-endian:
   an accepted CRC-flagged packet therefore ends with the CRC-16 of what precedes it *)
Theorem crc_trailer_unique m t : wf_bytes m -> wf_bytes t -> length t = 2%nat ->
  crc16 (m ++ t) = 0 -> t = be_encode 2 (crc16 m).
Proof.
  intros Wm Wt L Z0.
  destruct t as [|a [|b [|? ?]]]; try discriminate. clear L.
  inversion Wt as [|? ? Ra Wt']; subst. inversion Wt' as [|? ? Rb _]; subst.
  pose proof (crc16_range m Wm) as Rs. set (s := crc16 m) in *.
  pose proof (crc_residue m Wm) as Z1. fold s in Z1.
  rewrite crc16_app in Z0, Z1. fold s in Z0, Z1.
  rewrite be_encode_2 in *.
  set (a' := (s / 256) mod 256) in *. set (b' := s mod 256) in *.
  assert (Ra' : 0 <= a' < 256) by (unfold a'; apply Z.mod_pos_bound; lia).
  assert (Rb' : 0 <= b' < 256) by (unfold b'; apply Z.mod_pos_bound; lia).
  assert (X : crc_from (Z.lxor s s) (xor_bytes [a; b] [a'; b']) = 0).
  { rewrite crc_from_xor; try assumption; try reflexivity.
    - rewrite Z0, Z1. reflexivity.
    - repeat constructor; lia. }
  rewrite Z.lxor_nilpotent in X. cbn [xor_bytes] in X.
  pose proof (lxor_byte a a' Ra Ra') as Rx. pose proof (lxor_byte b b' Rb Rb') as Ry.
  set (x := Z.lxor a a') in *. set (y := Z.lxor b b') in *.
  assert (V : x * 256 + y = 0).
  { destruct (Z.eq_dec (x * 256 + y) 0) as [E|N]; [exact E|exfalso].
    pose proof (sweep _ 1 65535 ltac:(lia) w2_sweep (x * 256 + y) ltac:(lia)) as P.
    unfold chk_w2 in P. rewrite be_encode_2 in P.
    replace (((x * 256 + y) / 256) mod 256) with x in P
      by (rewrite Z.div_add_l by lia; rewrite (Z.div_small y 256) by lia; rewrite Z.add_0_r; symmetry; apply Z.mod_small; lia).
    replace ((x * 256 + y) mod 256) with y in P
      by (rewrite Z.add_comm, Z.mod_add by lia; symmetry; apply Z.mod_small; lia).
    unfold crc0 in P. rewrite X in P. discriminate. }
  assert (x = 0 /\ y = 0) as [X0 Y0] by lia.
  unfold x in X0. unfold y in Y0. apply Z.lxor_eq in X0. apply Z.lxor_eq in Y0. subst. reflexivity.
Qed.
