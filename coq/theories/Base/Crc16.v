(* CRC-16/CCITT-FALSE: polynomial 0x1021, initial value 0xFFFF, no reflection, no
   final xor.  Bitwise, MSB first -- deliberately NOT crcmod's table.  Definitions only;
   the algebra is in Base/Crc16Facts.v. *)
From Coq Require Import ZArith List Bool.
From SP Require Import Base.Bytes.
Import ListNotations.
Open Scope Z_scope.

(* one shift of the 16-bit register *)
Definition crc_bit (s : Z) : Z :=
  if Z.testbit s 15 then Z.lxor (Z.land (Z.shiftl s 1) 65535) 4129   (* 0x1021 *)
  else Z.land (Z.shiftl s 1) 65535.

Definition crc_F (s : Z) : Z :=
  crc_bit (crc_bit (crc_bit (crc_bit (crc_bit (crc_bit (crc_bit (crc_bit s))))))).

(* process one octet *)
Definition crc_upd (s b : Z) : Z := crc_F (Z.lxor s (Z.shiftl b 8)).

Definition crc_from (s : Z) (m : bytes) : Z := fold_left crc_upd m s.

Definition crc16 (m : bytes) : Z := crc_from 65535 m.
(* the same register started at 0 (the linear part) *)
Definition crc0 (m : bytes) : Z := crc_from 0 m.

(* Steer conversion (tactics and kernel) away from unfolding the register update on symbolic
   states: each crc_bit triplicates its argument, so an unfolded crc_upd is a 3^8-fold tree.
   Levels only order unfoldings; nothing is made opaque. *)
Strategy 1000 [crc_bit crc_F crc_upd].
