(* Lemmas about Base.Bytes: lengths, slices of concatenations, big-endian
   round trips for every width, sweeps, shift/mask -> arithmetic. *)
From Coq Require Import ZArith List Bool Lia ZifyBool.
From SP Require Import Base.Result Base.Bytes.
Import ListNotations.
Open Scope Z_scope.

(* ---------- sweeps ---------- *)

Lemma zrange_nat_In n : forall s x, In x (zrange_nat n s) <-> s <= x < s + Z.of_nat n.
Proof.
  induction n as [|n IH]; intros s x; cbn [zrange_nat In].
  - lia.
  - rewrite IH. lia.
Qed.

Lemma zrange_In s n x : 0 <= n -> (In x (zrange s n) <-> s <= x < s + n).
Proof. intros Hn. unfold zrange. rewrite zrange_nat_In. lia. Qed.

Lemma sweep (P : Z -> bool) s n :
  0 <= n -> forallb P (zrange s n) = true -> forall x, s <= x < s + n -> P x = true.
Proof.
  intros Hn H x Hx. rewrite forallb_forall in H. apply H. apply zrange_In; assumption.
Qed.

(* ---------- shift / mask to arithmetic ---------- *)

Lemma shiftl_mul a n : 0 <= n -> Z.shiftl a n = a * 2 ^ n.
Proof. intros. apply Z.shiftl_mul_pow2; assumption. Qed.
Lemma shiftr_div a n : 0 <= n -> Z.shiftr a n = a / 2 ^ n.
Proof. intros. apply Z.shiftr_div_pow2; assumption. Qed.
Lemma land_ones_mod a n : 0 <= n -> Z.land a (2 ^ n - 1) = a mod 2 ^ n.
Proof. intros. replace (2 ^ n - 1) with (Z.ones n) by (rewrite Z.ones_equiv; lia). apply Z.land_ones; assumption. Qed.

Lemma lor_disjoint a b k :
  0 <= k -> a mod 2 ^ k = 0 -> 0 <= b < 2 ^ k -> Z.lor a b = a + b.
Proof.
  intros Hk Ha Hb.
  assert (Hand : Z.land a b = 0).
  { apply Z.bits_inj'. intros n Hn. rewrite Z.land_spec, Z.bits_0.
    destruct (Z_lt_le_dec n k) as [Hlt|Hge].
    - assert (Z.testbit a n = false) as ->; [|reflexivity].
      rewrite <- (Z.mod_pow2_bits_low a k n) by lia. rewrite Ha. apply Z.bits_0.
    - assert (Z.testbit b n = false) as ->; [|apply andb_false_r].
      destruct (Z.eq_dec b 0) as [->|Hnz]; [apply Z.bits_0|].
      apply Z.bits_above_log2; [lia|].
      apply Z.log2_lt_pow2; [lia|]. apply Z.lt_le_trans with (2 ^ k); [lia|].
      apply Z.pow_le_mono_r; lia. }
  rewrite <- Z.lxor_lor by exact Hand.
  symmetry. apply Z.add_nocarry_lxor. exact Hand.
Qed.

(* ---------- list basics on Z-indexed slices ---------- *)

Lemma len_app (a b : bytes) : len (a ++ b) = len a + len b.
Proof. unfold len. rewrite app_length. lia. Qed.
Lemma len_nonneg (a : bytes) : 0 <= len a.
Proof. unfold len. lia. Qed.
Lemma len_cons x (a : bytes) : len (x :: a) = 1 + len a.
Proof. unfold len. cbn [length]. lia. Qed.
Lemma len_nil : len [] = 0. Proof. reflexivity. Qed.

Lemma firstn_app_exact {A} (a b : list A) n : n = length a -> firstn n (a ++ b) = a.
Proof. intros ->. rewrite firstn_app, Nat.sub_diag, firstn_all. cbn. apply app_nil_r. Qed.
Lemma skipn_app_exact {A} (a b : list A) n : n = length a -> skipn n (a ++ b) = b.
Proof. intros ->. rewrite skipn_app, Nat.sub_diag, skipn_all. reflexivity. Qed.

Lemma slice_to_app (a b : bytes) n : n = len a -> slice_to (a ++ b) n = a.
Proof. intros ->. unfold slice_to, len. rewrite Nat2Z.id. apply firstn_app_exact. reflexivity. Qed.
Lemma slice_from_app (a b : bytes) n : n = len a -> slice_from (a ++ b) n = b.
Proof. intros ->. unfold slice_from, len. rewrite Nat2Z.id. apply skipn_app_exact. reflexivity. Qed.

(* d = a ++ m ++ c, slice d |a| (|a|+|m|) = m *)
Lemma slice_mid (a m c : bytes) i j :
  i = len a -> j = len a + len m -> slice (a ++ m ++ c) i j = m.
Proof.
  intros -> ->. unfold slice, len.
  replace (Z.to_nat (Z.of_nat (length a) + Z.of_nat (length m) - Z.of_nat (length a)))
    with (length m) by lia.
  rewrite Nat2Z.id, skipn_app_exact by reflexivity. apply firstn_app_exact. reflexivity.
Qed.

Lemma slice_0 (d : bytes) j : slice d 0 j = slice_to d j.
Proof. unfold slice, slice_to. cbn. rewrite Z.sub_0_r. reflexivity. Qed.

Lemma slice_length (d : bytes) i j :
  0 <= i -> i <= j -> j <= len d -> length (slice d i j) = Z.to_nat (j - i).
Proof.
  unfold slice, len. intros. rewrite firstn_length, skipn_length. lia.
Qed.

Lemma py_get_app_l (a b : bytes) i : 0 <= i < len a -> py_get (a ++ b) i = py_get a i.
Proof.
  unfold py_get, len. intros H. destruct (i <? 0) eqn:E; [lia|].
  rewrite nth_error_app1 by lia. reflexivity.
Qed.

Lemma py_get_app_r (a b : bytes) i : len a <= i -> py_get (a ++ b) i = py_get b (i - len a).
Proof.
  unfold py_get, len. intros H.
  destruct (i <? 0) eqn:E; [lia|]. destruct (i - Z.of_nat (length a) <? 0) eqn:E2; [lia|].
  rewrite nth_error_app2 by lia.
  replace (Z.to_nat i - length a)%nat with (Z.to_nat (i - Z.of_nat (length a))) by lia.
  reflexivity.
Qed.

Lemma py_get_cons_0 x (l : bytes) : py_get (x :: l) 0 = Ok x.
Proof. reflexivity. Qed.

Lemma py_get_in_range (d : bytes) i : 0 <= i < len d -> exists b, py_get d i = Ok b /\ In b d.
Proof.
  unfold py_get, len. intros H. destruct (i <? 0) eqn:E; [lia|].
  destruct (nth_error d (Z.to_nat i)) eqn:N.
  - eexists; split; [reflexivity|]. eapply nth_error_In; eauto.
  - apply nth_error_None in N. lia.
Qed.

Lemma py_get_out_of_range (d : bytes) i : len d <= i -> py_get d i = Err EIndex.
Proof.
  unfold py_get, len. intros H. destruct (i <? 0) eqn:E; [reflexivity|].
  assert (nth_error d (Z.to_nat i) = None) as ->; [|reflexivity].
  apply nth_error_None. lia.
Qed.

Lemma wf_bytes_app a b : wf_bytes (a ++ b) <-> wf_bytes a /\ wf_bytes b.
Proof. unfold wf_bytes. apply Forall_app. Qed.
Lemma wf_bytes_firstn n a : wf_bytes a -> wf_bytes (firstn n a).
Proof.
  unfold wf_bytes. revert n. induction a as [|x a IH]; intros [|n] H; cbn; try constructor.
  - inversion H; assumption.
  - apply IH. inversion H; assumption.
Qed.
Lemma wf_bytes_skipn n a : wf_bytes a -> wf_bytes (skipn n a).
Proof.
  unfold wf_bytes. revert n. induction a as [|x a IH]; intros [|n] H; cbn; try assumption.
  apply IH. inversion H; assumption.
Qed.
Lemma wf_bytes_slice d i j : wf_bytes d -> wf_bytes (slice d i j).
Proof. intros. unfold slice. apply wf_bytes_firstn, wf_bytes_skipn. assumption. Qed.

Lemma wf_bytesb_iff l : wf_bytesb l = true <-> wf_bytes l.
Proof.
  unfold wf_bytesb, wf_bytes. rewrite forallb_forall, Forall_forall.
  split; intros H x Hx; specialize (H x Hx); unfold is_byte in *; lia.
Qed.

(* ---------- big endian ---------- *)

Lemma pow256_pos k : 0 < 256 ^ Z.of_nat k.
Proof. apply Z.pow_pos_nonneg; lia. Qed.

Lemma pow256_S k : 256 ^ Z.of_nat (S k) = 256 ^ Z.of_nat k * 256.
Proof. rewrite Nat2Z.inj_succ, Z.pow_succ_r by lia. lia. Qed.

Lemma be_encode_length n v : length (be_encode n v) = n.
Proof. induction n; cbn [be_encode length]; congruence. Qed.

Lemma be_encode_wf n v : wf_bytes (be_encode n v).
Proof.
  induction n; cbn [be_encode]; constructor; [|assumption].
  apply Z.mod_pos_bound. lia.
Qed.

Lemma be_decode_range l : wf_bytes l -> 0 <= be_decode l < 256 ^ Z.of_nat (length l).
Proof.
  induction l as [|b r IH]; intros H; cbn [be_decode length].
  - cbn. lia.
  - inversion H as [|? ? Hb Hr]; subst. specialize (IH Hr).
    rewrite pow256_S. pose proof (pow256_pos (length r)). nia.
Qed.

Lemma be_encode_mod n v : be_encode n (v mod 256 ^ Z.of_nat n) = be_encode n v.
Proof.
  revert v. induction n as [|k IH]; intros v; [reflexivity|].
  cbn [be_encode]. f_equal.
  - rewrite pow256_S. pose proof (pow256_pos k).
    rewrite Z.rem_mul_r by lia.
    rewrite Z.mul_comm, Z.div_add by lia.
    rewrite Z.mod_div by lia. rewrite Z.add_0_l, Z.mod_mod by lia. reflexivity.
  - rewrite <- (IH (v mod _)), <- (IH v). f_equal.
    rewrite pow256_S. pose proof (pow256_pos k).
    rewrite Z.rem_mul_r by lia.
    rewrite Z.mul_comm, Z_mod_plus_full, Z.mod_mod by lia. reflexivity.
Qed.

Lemma be_decode_encode_mod n v : be_decode (be_encode n v) = v mod 256 ^ Z.of_nat n.
Proof.
  induction n as [|k IH]; cbn [be_encode be_decode].
  - cbn. symmetry. apply Z.mod_1_r.
  - rewrite be_encode_length, IH, pow256_S. pose proof (pow256_pos k).
    rewrite Z.rem_mul_r by lia. lia.
Qed.

Lemma be_decode_encode n v : 0 <= v < 256 ^ Z.of_nat n -> be_decode (be_encode n v) = v.
Proof. intros H. rewrite be_decode_encode_mod. apply Z.mod_small. assumption. Qed.

Lemma be_encode_decode l : wf_bytes l -> be_encode (length l) (be_decode l) = l.
Proof.
  induction l as [|b r IH]; intros H; [reflexivity|].
  inversion H as [|? ? Hb Hr]; subst. cbn [length be_decode be_encode].
  pose proof (be_decode_range r Hr) as R. pose proof (pow256_pos (length r)).
  f_equal.
  - rewrite Z.div_add_l by lia. rewrite Z.div_small by lia.
    rewrite Z.add_0_r. apply Z.mod_small. lia.
  - rewrite <- be_encode_mod. rewrite Z.add_comm, Z_mod_plus_full.
    rewrite be_encode_mod. apply IH. assumption.
Qed.

Lemma be_encode_inj n v w :
  0 <= v < 256 ^ Z.of_nat n -> 0 <= w < 256 ^ Z.of_nat n ->
  be_encode n v = be_encode n w -> v = w.
Proof.
  intros Hv Hw E. rewrite <- (be_decode_encode n v Hv), <- (be_decode_encode n w Hw), E.
  reflexivity.
Qed.

(* concrete widths, arithmetic form *)
Lemma be_encode_1 v : be_encode 1 v = [v mod 256].
Proof. cbn [be_encode]. rewrite Z.pow_0_r, Z.div_1_r. reflexivity. Qed.
Lemma be_encode_2 v : be_encode 2 v = [(v / 256) mod 256; v mod 256].
Proof. cbn [be_encode]. rewrite Z.pow_0_r, Z.div_1_r. reflexivity. Qed.
Lemma be_decode_2 a b : be_decode [a; b] = a * 256 + b.
Proof. cbn. lia. Qed.

Lemma struct_pack_ok n v :
  0 <= v < 256 ^ Z.of_nat n -> struct_pack n v = Ok (be_encode n v).
Proof. intros H. unfold struct_pack. destruct (_ && _) eqn:E; [reflexivity|lia]. Qed.
Lemma struct_pack_err n v :
  ~ (0 <= v < 256 ^ Z.of_nat n) -> struct_pack n v = Err EStruct.
Proof. intros H. unfold struct_pack. destruct (_ && _) eqn:E; [lia|reflexivity]. Qed.
Lemma struct_unpack_ok n s : length s = n -> struct_unpack n s = Ok (be_decode s).
Proof. intros H. unfold struct_unpack. rewrite H, Nat.eqb_refl. reflexivity. Qed.
Lemma struct_unpack_encode n v :
  0 <= v < 256 ^ Z.of_nat n -> struct_unpack n (be_encode n v) = Ok v.
Proof.
  intros H. rewrite struct_unpack_ok by apply be_encode_length.
  rewrite be_decode_encode by assumption. reflexivity.
Qed.

Lemma bytes_eqb_eq a b : bytes_eqb a b = true <-> a = b.
Proof.
  revert b. induction a as [|x a IH]; intros [|y b]; cbn; try (split; congruence).
  rewrite andb_true_iff, IH, Z.eqb_eq. split; [intros [-> ->]; reflexivity|].
  intros E; inversion E; auto.
Qed.

(* evaluate d[i] on a list whose first i+1 cells are explicit *)
Ltac eval_get :=
  repeat match goal with
  | |- context [py_get ?l ?i] =>
      let r := eval cbv in (py_get l i) in change (py_get l i) with r
  end.
