(* Strict UTF-8 validity (RFC 3629: no overlong forms, no surrogates U+D800..U+DFFF,
   nothing above U+10FFFF) as a boolean on octet lists, and the model of
   bytes.decode() / str.encode() / len(str) used by the CFDP file-name fields.
   A Python str is represented by its UTF-8 octets.  Definitions + a few facts. *)
From Coq Require Import ZArith List Bool Lia.
From SP Require Import Base.Result Base.Bytes.
Import ListNotations.
Open Scope Z_scope.

Definition is_cont (b : Z) : bool := (128 <=? b) && (b <=? 191).

Fixpoint utf8_valid (l : bytes) : bool :=
  match l with
  | [] => true
  | b0 :: r =>
    if (0 <=? b0) && (b0 <=? 127) then utf8_valid r
    else if (194 <=? b0) && (b0 <=? 223) then
      match r with
      | b1 :: r' => is_cont b1 && utf8_valid r'
      | _ => false
      end
    else if (224 <=? b0) && (b0 <=? 239) then
      match r with
      | b1 :: b2 :: r' =>
          is_cont b1 && is_cont b2
          && (if b0 =? 224 then 160 <=? b1 else true)     (* no overlong 3-octet form *)
          && (if b0 =? 237 then b1 <=? 159 else true)     (* no surrogates *)
          && utf8_valid r'
      | _ => false
      end
    else if (240 <=? b0) && (b0 <=? 244) then
      match r with
      | b1 :: b2 :: b3 :: r' =>
          is_cont b1 && is_cont b2 && is_cont b3
          && (if b0 =? 240 then 144 <=? b1 else true)     (* no overlong 4-octet form *)
          && (if b0 =? 244 then b1 <=? 143 else true)     (* <= U+10FFFF *)
          && utf8_valid r'
      | _ => false
      end
    else false
  end.

(* bytes.decode(): the str (as its UTF-8 octets) or UnicodeDecodeError *)
Definition utf8_decode (b : bytes) : res bytes :=
  if utf8_valid b then Ok b else Err EUnicode.

(* len(s) of the str whose encoding is b: number of code points = number of
   octets that are not continuation octets (meaningful when utf8_valid b) *)
Fixpoint utf8_chars (b : bytes) : Z :=
  match b with
  | [] => 0
  | x :: r => (if is_cont x then 0 else 1) + utf8_chars r
  end.

Definition is_ascii (b : bytes) : Prop := Forall (fun x => 0 <= x <= 127) b.

Lemma ascii_utf8_valid b : is_ascii b -> utf8_valid b = true.
Proof.
  induction b as [|x r IH]; intros H; [reflexivity|].
  inversion H as [|? ? Hx Hr]; subst. cbn [utf8_valid].
  assert ((0 <=? x) && (x <=? 127) = true) as -> by lia. auto.
Qed.

Lemma ascii_utf8_chars b : is_ascii b -> utf8_chars b = len b.
Proof.
  induction b as [|x r IH]; intros H; [reflexivity|].
  inversion H as [|? ? Hx Hr]; subst. cbn [utf8_chars]. unfold is_cont.
  assert ((128 <=? x) && (x <=? 191) = false) as -> by lia.
  rewrite IH by assumption. unfold len. cbn [length]. lia.
Qed.

Lemma utf8_chars_le b : 0 <= utf8_chars b <= len b.
Proof.
  induction b as [|x r IH]; [cbn; lia|]. cbn [utf8_chars]. unfold len in *. cbn [length].
  destruct (is_cont x); lia.
Qed.

Lemma utf8_decode_ok b : utf8_valid b = true -> utf8_decode b = Ok b.
Proof. intros H. unfold utf8_decode. rewrite H. reflexivity. Qed.

Lemma utf8_decode_inv b s : utf8_decode b = Ok s -> s = b /\ utf8_valid b = true.
Proof. unfold utf8_decode. destruct (utf8_valid b); intros H; inversion H; auto. Qed.

Lemma utf8_decode_err b e : utf8_decode b = Err e -> e = EUnicode.
Proof. unfold utf8_decode. destruct (utf8_valid b); intros H; inversion H; auto. Qed.

(* "ä.txt" : 5 characters, 6 octets *)
Example utf8_example :
  utf8_valid [195; 164; 46; 116; 120; 116] = true /\ utf8_chars [195; 164; 46; 116; 120; 116] = 5.
Proof. split; reflexivity. Qed.
Example utf8_rejects :
  utf8_valid [192; 128] = false /\ utf8_valid [237; 160; 128] = false /\
  utf8_valid [244; 144; 128; 128] = false /\ utf8_valid [224; 128; 128] = false /\
  utf8_valid [255] = false /\ utf8_valid [128] = false /\ utf8_valid [226; 130] = false.
Proof. repeat split; reflexivity. Qed.
