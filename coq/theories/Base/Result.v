(* Error monad of the model.  Every Python exception class the decoders and
   constructors can raise has a constructor here, INCLUDING the undocumented
   ones, so that "never escapes with IndexError / struct.error / ..." is a
   statement that can be false of the model. *)
From Coq Require Import ZArith List Bool.
Import ListNotations.
Open Scope Z_scope.

Inductive err : Set :=
| EValue         (* ValueError (plain) *)
| ETooShort      (* BytesTooShortError / TmSrcDataTooShortError : ValueError subclasses *)
| EUnicode       (* UnicodeDecodeError : ValueError subclass *)
| ECrc           (* InvalidTcCrc16 / InvalidTmCrc16 / InvalidCrc *)
| EVersion       (* UnsupportedCfdpVersion *)
| ETlvMismatch   (* TlvTypeMissmatch *)
| EUslp (k : Z)  (* the seven Uslp* exceptions, numbered *)
| EVerifParams   (* InvalidVerifParams *)
| EOverflow      (* OverflowError *)
| EFileNotFound
| EType | EIndex | EStruct | EAttribute | EKey | EAssert  (* undocumented escapes *)
| EFuel          (* model-only: loop fuel exhausted; excluded in every theorem *)
| EOther.

Inductive res (A : Type) : Type :=
| Ok (a : A)
| Err (e : err).
Arguments Ok {A} a.
Arguments Err {A} e.

Definition bind {A B} (r : res A) (f : A -> res B) : res B :=
  match r with Ok a => f a | Err e => Err e end.

Notation "'do' x <- r ; k" := (bind r (fun x => k))
  (at level 200, x pattern, r at level 100, k at level 200, right associativity).
Notation "'check' b 'else' e ; k" := (if b then k else Err e)
  (at level 200, b at level 100, e at level 100, k at level 200, right associativity).

(* Documented failure classes (C10): ValueError and subclasses, CRC errors,
   version / TLV mismatch / USLP errors, and for constructors OverflowError,
   FileNotFoundError, InvalidVerifParams. *)
Definition documented (e : err) : bool :=
  match e with
  | EType | EIndex | EStruct | EAttribute | EKey | EAssert | EFuel | EOther => false
  | _ => true
  end.

(* ValueError or a subclass *)
Definition is_value_error (e : err) : bool :=
  match e with EValue | ETooShort | EUnicode => true | _ => false end.

Definition is_ok {A} (r : res A) : bool := match r with Ok _ => true | Err _ => false end.

Definition ok_or_documented {A} (r : res A) : Prop :=
  match r with Ok _ => True | Err e => documented e = true end.

Lemma bind_ok {A B} (r : res A) (f : A -> res B) b :
  bind r f = Ok b -> exists a, r = Ok a /\ f a = Ok b.
Proof. destruct r; simpl; intros H; [eauto | discriminate]. Qed.

(* error code used by the marshalling layer (Run/Dispatch.v); TooShort and Unicode
   are refinements of Value and compared as Value by the harness. *)
Definition err_code (e : err) : Z :=
  match e with
  | EValue => 1 | ETooShort => 2 | EUnicode => 3 | ECrc => 4 | EVersion => 5
  | ETlvMismatch => 6 | EUslp k => 100 + k | EVerifParams => 7 | EOverflow => 8
  | EFileNotFound => 9 | EType => 20 | EIndex => 21 | EStruct => 22
  | EAttribute => 23 | EKey => 24 | EAssert => 25 | EFuel => 98 | EOther => 99
  end.
