(* Model of spacepackets/cfdp/pdu/eof.py (EofPdu).  Definitions only. *)
From Coq Require Import ZArith List Bool.
From SP Require Import Base.Result Base.Bytes Base.Crc16 Model.PduHeader Model.FileDirective
  Model.Lv Model.Tlv.
Import ListNotations.
Open Scope Z_scope.

(* the object: the FileDirectivePduBase it owns (which owns the copied PduConfig), the
   condition code, the 4-octet checksum, the file size and the optional fault location
   (an EntityIdTlv, represented by the CfdpTlv it wraps) *)
Record EofPdu := { eof_fd : fdir; eof_cc : Z; eof_checksum : bytes; eof_size : Z;
                   eof_fault : option tlv }.

Definition eof_with_fd (p : EofPdu) (f : fdir) : EofPdu :=
  {| eof_fd := f; eof_cc := eof_cc p; eof_checksum := eof_checksum p; eof_size := eof_size p;
     eof_fault := eof_fault p |}.
Definition eof_with_fault (p : EofPdu) (t : option tlv) : EofPdu :=
  {| eof_fd := eof_fd p; eof_cc := eof_cc p; eof_checksum := eof_checksum p; eof_size := eof_size p;
     eof_fault := t |}.

(* _calculate_directive_param_field_len *)
Definition eof_calc_len (p : EofPdu) : res EofPdu :=
  let l := 9 in
  let l := if hdr_large_file (fd_hdr (eof_fd p)) then 13 else l in
  let l := match eof_fault p with Some t => l + tlv_packet_len t | None => l end in
  let l := if cf_crc (h_conf (fd_hdr (eof_fd p))) =? CRC_WITH_CRC then l + 2 else l in
  do f <- fdir_set_param_len (eof_fd p) l;
  Ok (eof_with_fd p f).

(* EofPdu.__init__(pdu_conf, file_checksum, file_size, fault_location, condition_code):
   returns the PDU and the caller's PduConfig afterwards (the constructor works on
   copy.copy(pdu_conf)) *)
Definition eof_new (conf : PduConfig) (checksum : bytes) (size : Z) (fault : option tlv) (cc : Z)
  : res (EofPdu * PduConfig) :=
  if negb (len checksum =? 4) then Err EValue else
  let conf' := conf_set_dir conf DIR_TOWARDS_RECEIVER in
  do f <- fdir_new conf' DT_EOF 0;
  do p <- eof_calc_len {| eof_fd := f; eof_cc := cc; eof_checksum := checksum; eof_size := size;
                          eof_fault := fault |};
  Ok (p, conf).

(* fault_location setter *)
Definition eof_set_fault (p : EofPdu) (t : option tlv) : res EofPdu :=
  eof_calc_len (eof_with_fault p t).

Definition eof_packet_len (p : EofPdu) : Z := fdir_packet_len (eof_fd p).

(* EofPdu.pack *)
Definition eof_pack (p : EofPdu) : res bytes :=
  do b <- fdir_pack (eof_fd p);
  do b <- ba_append b (Z.shiftl (eof_cc p) 4);
  let b := b ++ eof_checksum p in
  do s <- (if hdr_large_file (fd_hdr (eof_fd p)) then struct_pack 8 (eof_size p)
           else struct_pack 4 (eof_size p));
  let b := b ++ s in
  do b <- match eof_fault p with
          | Some t => do tb <- tlv_pack t; Ok (b ++ tb)
          | None => Ok b
          end;
  if cf_crc (h_conf (fd_hdr (eof_fd p))) =? CRC_WITH_CRC then
    do c <- struct_pack 2 (crc16 b); Ok (b ++ c)
  else Ok b.

(* EofPdu.__empty() *)
Definition eof_empty : res EofPdu :=
  do r <- eof_new conf_empty [0; 0; 0; 0] 0 None 0; Ok (fst r).

(* EofPdu.unpack *)
Definition eof_unpack (data : bytes) : res EofPdu :=
  do p <- eof_empty;
  do f <- fdir_unpack data;
  let p := eof_with_fd p f in
  do _ <- hdr_verify_length_and_checksum (fd_hdr f) data;
  (* data = data[:end_of_params]: the octets of this PDU in front of its CRC trailer *)
  let end_of_params :=
    if cf_crc (h_conf (fd_hdr f)) =? CRC_WITH_CRC then fdir_packet_len f - 2 else fdir_packet_len f in
  let data := slice_to data end_of_params in
  let expected_min_len := fdir_header_len f + 9 in
  if expected_min_len >? len data then Err ETooShort else
  let current_idx := fdir_header_len f in
  do b <- py_get data current_idx;
  let cc := Z.shiftr (Z.land b 240) 4 in
  let current_idx := current_idx + 1 in
  let checksum := slice data current_idx (current_idx + 4) in
  let current_idx := current_idx + 4 in
  do r <- fdir_parse_fss f data current_idx;
  let '(current_idx, size) := r in
  let p := {| eof_fd := eof_fd p; eof_cc := cc; eof_checksum := checksum; eof_size := size;
              eof_fault := eof_fault p |} in
  if len data >? current_idx then
    do t <- entity_unpack (slice_from data current_idx);
    eof_set_fault p (Some t)
  else Ok p.

(* EofPdu.__eq__: `and` chain, the fault locations are compared last with
   EntityIdTlv.__eq__ (numerical value of the ID; ValueError for a value that is not 0, 1, 2,
   4 or 8 octets long) *)
Definition eof_eqb (a b : EofPdu) : res bool :=
  if fdir_eqb (eof_fd a) (eof_fd b) && (eof_cc a =? eof_cc b) &&
     bytes_eqb (eof_checksum a) (eof_checksum b) && (eof_size a =? eof_size b)
  then match eof_fault a, eof_fault b with
       | None, None => Ok true
       | Some x, Some y => entity_eqb x y
       | _, _ => Ok false
       end
  else Ok false.
