(* Model of spacepackets/ecss/fields.py (PacketFieldEnum and its helpers).  Definitions only. *)
From Coq Require Import ZArith List Bool.
From SP Require Import Base.Result Base.Bytes Model.Util.
Import ListNotations.
Open Scope Z_scope.

Definition PTC_ENUMERATED : Z := 2.

Record pfe := { pfe_pfc : Z; pfe_val : Z }.

(* PacketFieldEnum.check_pfc: num_bytes = pfc // 8;
   `pfc % 8 != 0 or num_bytes not in [1, 2, 4, 8]` -> ValueError *)
Definition check_pfc (pfc : Z) : res Z :=
  let num_bytes := pfc / 8 in
  if negb (pfc mod 8 =? 0)
     || negb ((num_bytes =? 1) || (num_bytes =? 2) || (num_bytes =? 4) || (num_bytes =? 8))
  then Err EValue else Ok num_bytes.

(* PacketFieldEnum.__init__ : the value is not checked *)
Definition pfe_new (pfc val : Z) : res pfe :=
  do _ <- check_pfc pfc;
  Ok {| pfe_pfc := pfc; pfe_val := val |}.

Definition pfe_with_byte_size (num_bytes val : Z) : res pfe := pfe_new (num_bytes * 8) val.

Definition pfe_pack (f : pfe) : res bytes :=
  do n <- check_pfc (pfe_pfc f);
  to_unsigned n (pfe_val f).

Definition pfe_len (f : pfe) : res Z := check_pfc (pfe_pfc f).

Definition pfe_unpack (data : bytes) (pfc : Z) : res pfe :=
  do n <- check_pfc pfc;
  if n >? len data then Err ETooShort else
  do k <- unsigned_struct_specifier n;
  do v <- struct_unpack k (slice data 0 n);
  pfe_new pfc v.

Definition pfe_eqb (a b : pfe) : bool := (pfe_pfc a =? pfe_pfc b) && (pfe_val a =? pfe_val b).

(* ---- operation histories: pfc and val are public attributes ---- *)
Inductive pfe_op := PfVal (v : Z) | PfPfc (v : Z) | PfPack | PfLen | PfObserve | PfEqFresh.

Definition pfe_apply (f : pfe) (o : pfe_op) : pfe :=
  match o with
  | PfVal v => {| pfe_pfc := pfe_pfc f; pfe_val := v |}
  | PfPfc v => {| pfe_pfc := v; pfe_val := pfe_val f |}
  | _ => f
  end.

(* fresh = PacketFieldEnum(f.pfc, f.val) ; f == fresh, fresh == f *)
Definition pfe_eq_fresh (f : pfe) : res (bool * bool) :=
  do g <- pfe_new (pfe_pfc f) (pfe_val f); Ok (pfe_eqb f g, pfe_eqb g f).
