(* Operation histories on ONE live UnsignedByteField object through every public setter of
   spacepackets/util.py: `value = int`, `value = bytes / bytearray`, `byte_len = w`, and the
   re-assignment of the value the object already holds (by integer and by its own octets).
   Definitions only.  (Kept apart from Model/Util.v, which the CFDP header model imports, so
   that the history layer can grow without rebuilding every PDU proof.)

   The byte_len setter only verifies and stores the width: `_val` and `_val_as_bytes` keep what
   they held, so the object is "pending" (octets of the old width) until the next successful
   assignment to `value`, which verifies against / encodes in the NEW width.  A refused
   assignment raises before anything is stored and leaves the object as it was. *)
From Coq Require Import ZArith List Bool.
From SP Require Import Base.Result Base.Bytes Model.Util.
Import ListNotations.
Open Scope Z_scope.

(* byte_len setter: verify_byte_len, then self._byte_len = byte_len *)
Definition ubf_set_len (f : ubf) (w : Z) : res ubf :=
  do _ <- verify_byte_len w;
  Ok {| ubf_len := w; ubf_val := ubf_val f; ubf_bytes := ubf_bytes f |}.

Inductive ubf_hop :=
| HSetInt (v : Z)          (* f.value = v *)
| HSetBytes (b : bytes)    (* f.value = bytes(b) / bytearray(b) *)
| HSetLen (w : Z)          (* f.byte_len = w *)
| HSameInt                 (* f.value = f.value *)
| HSameBytes.              (* f.value = f.as_bytes *)

Definition ubf_hstep (f : ubf) (o : ubf_hop) : res ubf :=
  match o with
  | HSetInt v => ubf_set_int f v
  | HSetBytes b => ubf_set_bytes f b
  | HSetLen w => ubf_set_len f w
  | HSameInt => ubf_set_int f (ubf_val f)
  | HSameBytes => ubf_set_bytes f (ubf_bytes f)
  end.

Definition ubf_happly (f : ubf) (o : ubf_hop) : ubf :=
  match ubf_hstep f o with Ok f' => f' | Err _ => f end.

Fixpoint ubf_hrun (f : ubf) (ops : list ubf_hop) : ubf :=
  match ops with [] => f | o :: r => ubf_hrun (ubf_happly f o) r end.

(* hex_str on an object whose value may not fit its (just changed) width: Python's
   f"{v:#0Nx}" pads to N - 2 digits and WIDENS when v needs more.  v >= 0 always. *)
Definition hex_digit_count (v : Z) : nat :=
  if v <=? 0 then 1%nat else Z.to_nat (Z.log2 v / 4 + 1).
Definition hex_min (n : nat) (v : Z) : list Z := hex_encode (Nat.max n (hex_digit_count v)) v.
Definition ubf_hex_str_any (f : ubf) : option (list Z) :=
  if ubf_len f =? 1 then Some (hex_min 2 (ubf_val f))
  else if ubf_len f =? 2 then Some (hex_min 4 (ubf_val f))
  else if ubf_len f =? 4 then Some (hex_min 8 (ubf_val f))
  else if ubf_len f =? 8 then Some (hex_min 16 (ubf_val f))
  else None.

(* the object is coherent: octets = big-endian encoding of the value in exactly byte_len octets *)
Definition ubf_coherent (f : ubf) : bool :=
  byte_num_allowed (ubf_len f) && (0 <=? ubf_val f) && (ubf_val f <? 256 ^ ubf_len f)
  && bytes_eqb (ubf_bytes f) (be_encode (Z.to_nat (ubf_len f)) (ubf_val f)).
