(* Model of parse_space_packets / __handle_packet_id_match
   (spacepackets/ccsds/spacepacket.py).  Definitions only.

   The analysis queue (collections.deque of bytearrays) is a list of octet
   strings, left end first.  One call returns (tm_list, queue afterwards). *)
From Coq Require Import ZArith List Bool.
From SP Require Import Base.Result Base.Bytes Model.SpacePacket.
Import ListNotations.
Open Scope Z_scope.

Definition queue := list bytes.

(* ids_raw = [packet_id.raw() for packet_id in packet_ids] *)
Definition ids_raw (ids : list pid) : list Z := map pid_raw ids.

(* current_packet_id in ids_raw *)
Definition id_in (x : Z) (raws : list Z) : bool := existsb (Z.eqb x) raws.

(* __handle_packet_id_match: returns (result, current_idx, analysis_queue, tm_list) *)
Definition handle_packet_id_match (buf : bytes) (q : queue) (idx : Z) (tm : list bytes)
  : res (Z * Z * queue * list bytes) :=
  do lf <- struct_unpack 2 (slice buf (idx + 4) (idx + 6));
  let total_packet_len := get_total_space_packet_len_from_len_field lf in
  if idx + total_packet_len >? len buf then
    (* analysis_queue.clear(); analysis_queue.append(concatenated_packets[current_idx:]) *)
    Ok (-1, idx, [slice_from buf idx], tm)
  else
    Ok (0, idx + total_packet_len, q, tm ++ [slice buf idx (idx + total_packet_len)]).

(* the `while True` loop; q is the (already drained) analysis queue *)
Fixpoint scan (fuel : nat) (raws : list Z) (buf : bytes) (q : queue) (idx : Z) (tm : list bytes)
  : res (list bytes * queue) :=
  match fuel with
  | O => Err EFuel
  | S f =>
    if idx + CCSDS_HEADER_LEN >=? len buf then
      (* re-insert the unconsumed tail, then break *)
      if idx <? len buf then Ok (tm, q ++ [slice_from buf idx]) else Ok (tm, q)
    else
      do w <- struct_unpack 2 (slice buf idx (idx + 2));
      let current_packet_id := Z.land w PACKET_ID_MASK in
      if id_in current_packet_id raws then
        do (result, idx', q', tm') <- handle_packet_id_match buf q idx tm;
        if negb (result =? 0) then Ok (tm', q')                     (* break *)
        else scan f raws buf q' idx' tm'
      else scan f raws buf q (idx + 1) tm
  end.

(* everything after the queue has been drained into one buffer *)
Definition parse_buf (raws : list Z) (buf : bytes) : res (list bytes * queue) :=
  if len buf <? 6 then
    if len buf >? 0 then Ok ([], [buf]) else Ok ([], [])
  else scan (S (length buf)) raws buf [] 0 [].

Definition parse_space_packets (q : queue) (ids : list pid) : res (list bytes * queue) :=
  match q with
  | [] => Ok ([], [])                                 (* if not analysis_queue: return *)
  | _ => parse_buf (ids_raw ids) (concat q)
  end.

(* ---- histories: append(chunk) on the right / parse(ids) ---- *)
Inductive pop := Append (c : bytes) | Parse (ids : list pid).

(* observation after one operation: (returned packets, queue afterwards) *)
Definition step (q : queue) (o : pop) : res (list bytes * queue) :=
  match o with
  | Append c => Ok ([], q ++ [c])
  | Parse ids => parse_space_packets q ids
  end.

Fixpoint run_ops (q : queue) (ops : list pop) : res (list (list bytes * queue)) :=
  match ops with
  | [] => Ok []
  | o :: r =>
    do (p, q') <- step q o;
    do rest <- run_ops q' r;
    Ok ((p, q') :: rest)
  end.

(* ---- the code before the repair of D-C13-1 (commit 77c93e1), kept for the witness ---- *)
Fixpoint scan0 (fuel : nat) (raws : list Z) (buf : bytes) (q : queue) (idx : Z) (tm : list bytes)
  : res (list bytes * queue) :=
  match fuel with
  | O => Err EFuel
  | S f =>
    if idx + CCSDS_HEADER_LEN >=? len buf then Ok (tm, q)          (* break: tail dropped *)
    else
      do w <- struct_unpack 2 (slice buf idx (idx + 2));
      let current_packet_id := Z.land w PACKET_ID_MASK in
      if id_in current_packet_id raws then
        do (result, idx', q', tm') <- handle_packet_id_match buf q idx tm;
        if negb (result =? 0) then Ok (tm', q')
        else scan0 f raws buf q' idx' tm'
      else scan0 f raws buf q (idx + 1) tm
  end.

Definition parse_buf0 (raws : list Z) (buf : bytes) : res (list bytes * queue) :=
  if len buf <? 6 then Ok ([], [])                                  (* buffer dropped *)
  else scan0 (S (length buf)) raws buf [] 0 [].
