(* Live-object histories of spacepackets/cfdp/tlv/msg_to_user.py: one MessageToUserTlv or one
   ReservedCfdpMessage (any of the nine builders) observed while its public attribute `tlv` is replaced or
   edited, its read-only properties are assigned (refused), and pack / the classification / the parameter
   parsers / the conversions are called in any order.  Definitions only.
   Both classes keep exactly one piece of state: the wrapped CfdpTlv in the plain attribute `tlv`.
   ReservedCfdpMessage.tlv_type reads the wrapped TLV's type, MessageToUserTlv.tlv_type is the constant. *)
From Coq Require Import ZArith List Bool.
From SP Require Import Base.Result Base.Bytes Model.Lv Model.Tlv Model.TlvHist Model.MsgToUser.
Import ListNotations.
Open Scope Z_scope.

Record mobj := { mo_reserved : bool; mo_tlv : tlv }.
Definition mo_with (o : mobj) (t : tlv) : mobj := {| mo_reserved := mo_reserved o; mo_tlv := t |}.

(* marshalled answer of a parser: 1 = None, 2 :: fields otherwise (fields flattened with a length in front of
   every octet string) *)
Definition fl (b : bytes) : list Z := len b :: b.
Definition ubf_f (u : ubf) : list Z := [fst u; snd u].
Definition opt_out {A} (f : A -> list Z) (r : res (option A)) : res (list Z) :=
  do o <- r; Ok (match o with None => [1] | Some x => 2 :: f x end).
Definition oz (o : option Z) : Z := match o with Some x => x | None => -1 end.
Definition bz (b : bool) : Z := if b then 1 else 0.

(* the classification calls in the order the harness makes them *)
Definition classify (r : tlv) : res (list Z) :=
  do mt <- get_reserved_cfdp_message_type r;
  do p <- is_cfdp_proxy_operation r; do d <- is_directory_operation r;
  do g <- is_originating_transaction_id r;
  do pt <- get_cfdp_proxy_message_type r; do dt <- get_directory_operation_type r;
  Ok [mt; bz p; bz d; bz g; oz pt; oz dt].

Definition parser_out (k : Z) (r : tlv) : res (list Z) :=
  if k =? 0 then opt_out (fun x => ubf_f (fst x) ++ ubf_f (snd x)) (get_originating_transaction_id r)
  else if k =? 1 then
    opt_out (fun x => ubf_f (fst (fst x)) ++ fl (snd (fst x)) ++ fl (snd x)) (get_proxy_put_request_params r)
  else if k =? 2 then
    opt_out (fun x => [fst (fst x); snd (fst x); snd x]) (get_proxy_put_response_params r)
  else if k =? 3 then opt_out (fun x => [x]) (get_proxy_closure_requested r)
  else if k =? 4 then opt_out (fun x => [x]) (get_proxy_transmission_mode r)
  else if k =? 5 then opt_out (fun x => fl (fst x) ++ fl (snd x)) (get_dir_listing_request_params r)
  else if k =? 6 then
    opt_out (fun x => fst (fst x) :: fl (snd (fst x)) ++ fl (snd x)) (get_dir_listing_response_params r)
  else if k =? 7 then opt_out (fun x => [fst x; snd x]) (get_dir_listing_options r)
  else Err EOther.

Inductive mop :=
| MPack
| MClassify                       (* reserved message: the six classification calls *)
| MParser (k : Z)                 (* reserved message: get_* number k *)
| MToGeneric                      (* reserved message: to_generic_msg_to_user_tlv().pack() *)
| MIsReserved                     (* message to user: is_reserved_cfdp_message() *)
| MToReserved                     (* message to user: to_reserved_msg_tlv() -> None / value and type of the new object *)
| MSetTlv (ty : Z) (v : bytes)    (* o.tlv = CfdpTlv(ty, v) *)
| MSubType (x : Z)                (* o.tlv.tlv_type = x *)
| MSetType (x : Z) | MSetValue (v : bytes) | MSetPacketLen (x : Z)     (* read-only properties *)
| MBad.

Definition mstep (o : mobj) (p : mop) : res (list Z) * mobj :=
  let t := mo_tlv o in
  match p with
  | MPack => (tlv_pack t, o)
  | MSetTlv ty v => match tlv_new ty v with Ok t' => (Ok [], mo_with o t') | Err e => (Err e, o) end
  | MSubType x => (Ok [], mo_with o (with_type t x))
  | MSetType _ | MSetValue _ | MSetPacketLen _ => (Err EAttribute, o)
  | MClassify => if mo_reserved o then (classify t, o) else (Err EOther, o)
  | MParser k => if mo_reserved o then (parser_out k t, o) else (Err EOther, o)
  | MToGeneric =>
      if mo_reserved o then ((do g <- to_generic_msg_to_user_tlv t; tlv_pack g), o) else (Err EOther, o)
  | MIsReserved =>
      if mo_reserved o then (Err EOther, o) else ((do b <- is_reserved_cfdp_message t; Ok [bz b]), o)
  | MToReserved =>
      if mo_reserved o then (Err EOther, o) else
      ((do r <- to_reserved_msg_tlv t;
        Ok (match r with None => [0] | Some x => 1 :: tlv_type x :: tlv_value x end)), o)
  | MBad => (Err EOther, o)
  end.

(* tlv_type property, wrapped type; value; packet_len *)
Definition mview (o : mobj) : list (list Z) :=
  let t := mo_tlv o in
  [[if mo_reserved o then tlv_type t else TLV_MESSAGE_TO_USER; tlv_type t]; tlv_value t; [tlv_packet_len t]].

Fixpoint mrun (o : mobj) (ps : list mop) : list (res (list Z) * list (list Z)) :=
  match ps with
  | [] => []
  | p :: rest => let '(r, o') := mstep o p in (r, mview o') :: mrun o' rest
  end.
