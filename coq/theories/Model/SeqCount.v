(* Executable mirror of spacepackets/seqcount.py: SeqCountProvider (in memory) and
   FileSeqCountProvider / PusFileSeqCountProvider (file backed).  Definitions only.

   The file is modelled by its content, a list of character codes over the ASCII alphabet
   (0..127), `None` = the file does not exist.  The content is explicit state in and out of
   every operation; a provider object has no other state than (max_bit_width, file name).
   Text-mode I/O as CPython does it on the default settings: universal newlines on reading
   ('\n', '\r' and '\r\n' all end a line and are delivered as '\n'), "\n" written as is
   (POSIX), `seek(0)` + `write` overwrites in place WITHOUT truncating. *)
From Coq Require Import ZArith List Bool Decimal DecimalZ.
From SP Require Import Base.Result Base.Bytes.
Import ListNotations.
Open Scope Z_scope.

(* ---------- str / int / isdigit / rstrip / readline on ASCII code lists ---------- *)

Definition text := list Z.

Fixpoint digit_codes (u : uint) : text :=
  match u with
  | Nil => []
  | D0 r => 48 :: digit_codes r | D1 r => 49 :: digit_codes r | D2 r => 50 :: digit_codes r
  | D3 r => 51 :: digit_codes r | D4 r => 52 :: digit_codes r | D5 r => 53 :: digit_codes r
  | D6 r => 54 :: digit_codes r | D7 r => 55 :: digit_codes r | D8 r => 56 :: digit_codes r
  | D9 r => 57 :: digit_codes r
  end.

(* f"{n}" *)
Definition str_of_Z (n : Z) : text :=
  match Z.to_int n with
  | Decimal.Pos u => digit_codes u
  | Decimal.Neg u => 45 :: digit_codes u
  end.

Definition is_digit (c : Z) : bool := (48 <=? c) && (c <=? 57).

(* the digits of a string, None when some character is not an ASCII digit *)
Fixpoint uint_of_codes (s : text) : option uint :=
  match s with
  | [] => Some Nil
  | c :: r =>
      match uint_of_codes r with
      | None => None
      | Some u =>
          if c =? 48 then Some (D0 u) else if c =? 49 then Some (D1 u)
          else if c =? 50 then Some (D2 u) else if c =? 51 then Some (D3 u)
          else if c =? 52 then Some (D4 u) else if c =? 53 then Some (D5 u)
          else if c =? 54 then Some (D6 u) else if c =? 55 then Some (D7 u)
          else if c =? 56 then Some (D8 u) else if c =? 57 then Some (D9 u)
          else None
      end
  end.

(* str.isdigit(): non-empty and every character a digit (ASCII alphabet) *)
Definition isdigit (s : text) : bool :=
  match s with [] => false | _ => forallb is_digit s end.

(* int(s) for a string that passed isdigit(); ValueError otherwise (unreachable after the
   isdigit guard, proved in SeqCountProofs.isdigit_int_ok) *)
Definition py_int (s : text) : res Z :=
  match uint_of_codes s with Some u => Ok (Z.of_uint u) | None => Err EValue end.

(* ASCII whitespace as str.rstrip() sees it: \t \n \v \f \r, FS GS RS US, space *)
Definition is_space (c : Z) : bool := ((9 <=? c) && (c <=? 13)) || ((28 <=? c) && (c <=? 32)).

Fixpoint rstrip (s : text) : text :=
  match s with
  | [] => []
  | c :: r => match rstrip r with
              | [] => if is_space c then [] else [c]
              | r' => c :: r'
              end
  end.

(* file.readline() from position 0 in universal-newline mode: up to and including the first
   line end, delivered as '\n' *)
Definition is_newline (c : Z) : bool := (c =? 10) || (c =? 13).
Fixpoint readline (s : text) : text :=
  match s with
  | [] => []
  | c :: r => if is_newline c then [10] else c :: readline r
  end.

(* seek(0); write(s): overwrite in place, keep whatever lies behind *)
Definition write_at_0 (content s : text) : text := s ++ skipn (length s) content.

(* ---------- FileSeqCountProvider ---------- *)

Definition file := option text.

(* __init__: create "0\n" when the file does not exist, otherwise leave it alone *)
Definition file_new (fs : file) : file :=
  match fs with None => Some [48; 10] | Some c => Some c end.

Definition check_count (w : Z) (line : text) : res Z :=
  let line := rstrip line in
  check isdigit line else EValue;
  do n <- py_int line;
  check negb ((n <? 0) || (n >? 2 ^ w - 1)) else EValue;
  Ok n.

Definition increment_with_rollover (w n : Z) : Z :=
  if n >=? 2 ^ w - 1 then 0 else n + 1.

Definition file_current (w : Z) (fs : file) : res Z :=
  match fs with
  | None => Err EFileNotFound
  | Some c => check_count w (readline c)
  end.

(* get_and_increment / __next__: returned value (or exception) and the file afterwards *)
Definition file_next (w : Z) (fs : file) : res Z * file :=
  match fs with
  | None => (Err EFileNotFound, None)
  | Some c =>
      match check_count w (readline c) with
      | Err e => (Err e, Some c)
      | Ok n => (Ok n, Some (write_at_0 c (str_of_Z (increment_with_rollover w n) ++ [10])))
      end
  end.

(* histories: a process may stop between any two calls and a new provider object may be
   created on the same file (Restart = __init__ again) *)
Inductive file_op := FNext | FCurrent | FRestart.

Definition file_step (w : Z) (fs : file) (o : file_op) : option (res Z) * file :=
  match o with
  | FNext => let '(r, fs') := file_next w fs in (Some r, fs')
  | FCurrent => (Some (file_current w fs), fs)
  | FRestart => (None, file_new fs)
  end.

Fixpoint file_run (w : Z) (fs : file) (ops : list file_op) : list (option (res Z)) * file :=
  match ops with
  | [] => ([], fs)
  | o :: rest =>
      let '(r, fs1) := file_step w fs o in
      let '(rs, fs2) := file_run w fs1 rest in
      (r :: rs, fs2)
  end.

(* ---------- SeqCountProvider (in memory) ---------- *)

(* state = self.count; __init__ sets it to 0.  get_and_increment returns it and moves on,
   rolling over to 0 after 2^max_bit_width - 1 *)
Definition mem_init : Z := 0.
Definition mem_next (w count : Z) : Z * Z :=
  (count, if count >=? 2 ^ w - 1 then 0 else count + 1).

(* the values returned by n successive calls *)
Fixpoint mem_run (w : Z) (n : nat) (count : Z) : list Z :=
  match n with
  | O => []
  | S k => let '(r, c') := mem_next w count in r :: mem_run w k c'
  end.

(* PusFileSeqCountProvider: max_bit_width = 14, the CCSDS packet sequence count *)
Definition PUS_SEQ_WIDTH : Z := 14.
Definition MAX_SEQ_COUNT : Z := 16383.

(* ---------- live provider objects and their public setters / attributes ---------- *)

(* SeqCountProvider object: `count` is a public attribute, `max_bit_width` has a public setter
   that just stores the width (the limit is recomputed from it on every call). *)
Record memprov := { m_count : Z; m_width : Z }.
Definition memprov_new (w : Z) : memprov := {| m_count := mem_init; m_width := w |}.
Inductive mem_op := MNext | MSetWidth (w : Z) | MSetCount (c : Z).
Definition memprov_step (p : memprov) (o : mem_op) : option Z * memprov :=
  match o with
  | MNext => let '(r, c') := mem_next (m_width p) (m_count p) in
             (Some r, {| m_count := c'; m_width := m_width p |})
  | MSetWidth w => (None, {| m_count := m_count p; m_width := w |})
  | MSetCount c => (None, {| m_count := c; m_width := m_width p |})
  end.

(* FileSeqCountProvider objects in a directory with two files A and B.  The main provider's
   state is (max_bit_width, file_name), both settable from outside; a second provider object
   lives on file B with its own width.  No provider holds anything else (no cached limit, no
   open file): every call recomputes from (width, file content). *)
Record world := { w_width : Z; w_on_b : bool; w_a : file; w_b : file; w_width2 : Z }.
Definition w_cur (s : world) : file := if w_on_b s then w_b s else w_a s.
Definition w_set_cur (s : world) (f : file) : world :=
  if w_on_b s then {| w_width := w_width s; w_on_b := true; w_a := w_a s; w_b := f; w_width2 := w_width2 s |}
  else {| w_width := w_width s; w_on_b := false; w_a := f; w_b := w_b s; w_width2 := w_width2 s |}.
Definition w_set_width (s : world) (w : Z) : world :=
  {| w_width := w; w_on_b := w_on_b s; w_a := w_a s; w_b := w_b s; w_width2 := w_width2 s |}.

(* create_new(): open(..., "w") truncates, then "0\n" *)
Definition file_create_new : file := Some [48; 10].

Inductive world_op :=
| WNew (w : Z)            (* a new main provider object of width w on the current path *)
| WNext | WCurrent
| WDelete                 (* current file removed from outside *)
| WOverwrite (c : text)   (* current file rewritten from outside *)
| WSetWidth (w : Z)       (* prov.max_bit_width = w *)
| WSwitch                 (* prov.file_name = the other path *)
| WCreateNew              (* prov.create_new() *)
| WNext2.                 (* next() on the second provider (file B, its own width) *)

Definition world_step (s : world) (o : world_op) : option (res Z) * world :=
  match o with
  | WNew w => (None, w_set_cur (w_set_width s w) (file_new (w_cur s)))
  | WNext => let '(r, f) := file_next (w_width s) (w_cur s) in (Some r, w_set_cur s f)
  | WCurrent => (Some (file_current (w_width s) (w_cur s)), s)
  | WDelete => (None, w_set_cur s None)
  | WOverwrite c => (None, w_set_cur s (Some c))
  | WSetWidth w => (None, w_set_width s w)
  | WSwitch => (None, {| w_width := w_width s; w_on_b := negb (w_on_b s); w_a := w_a s; w_b := w_b s;
                         w_width2 := w_width2 s |})
  | WCreateNew => (None, w_set_cur s file_create_new)
  | WNext2 => let '(r, f) := file_next (w_width2 s) (w_b s) in
              (Some r, {| w_width := w_width s; w_on_b := w_on_b s; w_a := w_a s; w_b := f;
                          w_width2 := w_width2 s |})
  end.
