(* A second, linear-time formulation of the parser histories of Model/Parser.v, used by the
   dispatcher (Run/DispParser.v, op 902) for large backlogs.  Definitions only.

   Model.Parser.scan mirrors the index/slice code: every step recomputes `len buf` and takes
   `buf[idx:idx+2]` from the start of the list, i.e. costs O(length buf); a backlog of 1000
   packets in 100 KiB costs about 15 s in the extracted model.  The walk on the remaining suffix
   (Spec.ParserSpec.spec_stream) is linear.  Proofs/ParserFast.v proves
     run_ops_fast q ops = run_ops q ops   for EVERY queue and operation list
   (on well-formed octets via Proofs.ParserProofs.parse_buf_spec; on anything else
   run_ops_fast falls back to run_ops itself), so the two dispatcher operations 900 and 902
   compute the same function and differ only in cost. *)
From Coq Require Import ZArith List Bool.
From SP Require Import Base.Result Base.Bytes Model.SpacePacket Model.Parser Spec.ParserSpec.
Import ListNotations.
Open Scope Z_scope.

Definition to_queue_fast (r : bytes) : queue := match r with [] => [] | _ => [r] end.

(* parse_space_packets through the suffix walk *)
Definition parse_fast (q : queue) (ids : list pid) : list bytes * queue :=
  match q with
  | [] => ([], [])
  | _ => let '(p, r) := spec_stream (ids_raw ids) (concat q) in (p, to_queue_fast r)
  end.

Definition step_fast (q : queue) (o : pop) : list bytes * queue :=
  match o with
  | Append c => ([], q ++ [c])
  | Parse ids => parse_fast q ids
  end.

Fixpoint run_fast (q : queue) (ops : list pop) : list (list bytes * queue) :=
  match ops with
  | [] => []
  | o :: r => let '(p, q') := step_fast q o in (p, q') :: run_fast q' r
  end.

Definition pop_wfb (o : pop) : bool :=
  match o with Append c => wf_bytesb c | Parse _ => true end.

Definition run_ops_fast (q : queue) (ops : list pop) : res (list (list bytes * queue)) :=
  if forallb wf_bytesb q && forallb pop_wfb ops then Ok (run_fast q ops) else run_ops q ops.
