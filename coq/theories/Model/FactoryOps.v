(* Operation histories on one PduHolder object (spacepackets/cfdp/pdu/helper.py): the holder is
   filled again and again through the factory (or emptied), inspected, packed, asked for a typed
   view, and the held File Data PDU is edited through that view.  Definitions only. *)
From Coq Require Import ZArith List Bool.
From SP Require Import Base.Result Base.Bytes Model.PduHeader Model.FileDirective Model.Factory
  Model.PduHeaderOps Model.FileDataOps.
From SP Require Model.FileData.
Import ListNotations.
Open Scope Z_scope.

Inductive holder_op :=
| KSet (data : bytes)        (* h.pdu = PduFactory.from_raw(data)      (or the deprecated h.base = ...) *)
| KSetNone                   (* h.pdu = None *)
| KInspect                   (* h.pdu_type, h.is_file_directive, h.pdu_directive_type *)
| KPacketLen                 (* h.packet_len *)
| KPack                      (* h.pack() *)
| KTo (k : Z)                (* h.to_<class k>_pdu() *)
| KFileDataSet (d : bytes).  (* h.to_file_data_pdu().file_data = d *)

Definition holder_step (h : holder) (o : holder_op) : holder * res (list Z) :=
  match o with
  | KSet data => match fac_from_raw data with Ok h' => (h', Ok []) | Err e => (h, Err e) end
  | KSetNone => (None, Ok [])
  | KInspect =>
      (h, do t <- holder_pdu_type h; do b <- holder_is_file_directive h;
          do d <- holder_pdu_directive_type h;
          Ok (t :: (if b then 1 else 0) :: match d with None => [0] | Some x => [1; x] end))
  | KPacketLen => (h, Ok [holder_packet_len h])
  | KPack => (h, holder_pack h)
  | KTo k => (h, do p <- holder_to k h; Ok [pdu_kind p])
  | KFileDataSet d =>
      match holder_to 0 h with
      | Ok (PFileData q) => let '(q', out) := fd_step q (FSetData d) in (Some (PFileData q'), out)
      | Ok _ => (h, Err EOther)
      | Err e => (h, Err e)
      end
  end.
