(* Model of spacepackets/cfdp/pdu/finished.py (FinishedParams, FinishedPdu).
   Definitions only.  File-store responses are FileStoreResponseTlv objects (Model/Tlv.v
   `fsresp`), the fault location an EntityIdTlv (its wrapped CfdpTlv, `tlv`). *)
From Coq Require Import ZArith List Bool.
From SP Require Import Base.Result Base.Bytes Base.Crc16 Model.PduHeader Model.FileDirective
  Model.Lv Model.Tlv.
Import ListNotations.
Open Scope Z_scope.

(* ---- cfdp/defs.py : ConditionCode, DeliveryCode, FileStatus ---- *)
Definition CC_NO_CONDITION_FIELD : Z := -1.
Definition CC_NO_ERROR : Z := 0.
Definition CC_POSITIVE_ACK_LIMIT_REACHED : Z := 1.
Definition CC_KEEP_ALIVE_LIMIT_REACHED : Z := 2.
Definition CC_INVALID_TRANSMISSION_MODE : Z := 3.
Definition CC_FILESTORE_REJECTION : Z := 4.
Definition CC_FILE_CHECKSUM_FAILURE : Z := 5.
Definition CC_FILE_SIZE_ERROR : Z := 6.
Definition CC_NAK_LIMIT_REACHED : Z := 7.
Definition CC_INACTIVITY_DETECTED : Z := 8.
Definition CC_CHECK_LIMIT_REACHED : Z := 10.
Definition CC_UNSUPPORTED_CHECKSUM_TYPE : Z := 11.
Definition CC_SUSPEND_REQUEST_RECEIVED : Z := 14.
Definition CC_CANCEL_REQUEST_RECEIVED : Z := 15.
Definition condition_codes : list Z :=
  [CC_NO_CONDITION_FIELD; CC_NO_ERROR; CC_POSITIVE_ACK_LIMIT_REACHED; CC_KEEP_ALIVE_LIMIT_REACHED;
   CC_INVALID_TRANSMISSION_MODE; CC_FILESTORE_REJECTION; CC_FILE_CHECKSUM_FAILURE;
   CC_FILE_SIZE_ERROR; CC_NAK_LIMIT_REACHED; CC_INACTIVITY_DETECTED; CC_CHECK_LIMIT_REACHED;
   CC_UNSUPPORTED_CHECKSUM_TYPE; CC_SUSPEND_REQUEST_RECEIVED; CC_CANCEL_REQUEST_RECEIVED].
Definition is_condition_code (x : Z) : bool := memz x condition_codes.
(* ConditionCode(x) *)
Definition condition_code_of_int (x : Z) : res Z :=
  if is_condition_code x then Ok x else Err EValue.

Definition DC_DATA_COMPLETE : Z := 0.
Definition DC_DATA_INCOMPLETE : Z := 1.
Definition delivery_code_of_int (x : Z) : res Z :=
  if (x =? DC_DATA_COMPLETE) || (x =? DC_DATA_INCOMPLETE) then Ok x else Err EValue.

Definition FS_DISCARDED_DELIBERATELY : Z := 0.
Definition FS_DISCARDED_FILESTORE_REJECTION : Z := 1.
Definition FS_FILE_RETAINED : Z := 2.
Definition FS_FILE_STATUS_UNREPORTED : Z := 3.
Definition file_status_of_int (x : Z) : res Z :=
  if (x =? FS_DISCARDED_DELIBERATELY) || (x =? FS_DISCARDED_FILESTORE_REJECTION) ||
     (x =? FS_FILE_RETAINED) || (x =? FS_FILE_STATUS_UNREPORTED) then Ok x else Err EValue.

(* ---- FinishedParams ---- *)
Record FinParams := {
  fn_cc : Z; fn_dc : Z; fn_fs : Z;
  fn_resps : list fsresp;          (* file_store_responses *)
  fn_fault : option tlv }.         (* fault_location: the CfdpTlv inside the EntityIdTlv *)

(* FinishedParams.empty() *)
Definition fn_empty : FinParams :=
  {| fn_cc := CC_NO_ERROR; fn_dc := DC_DATA_COMPLETE; fn_fs := FS_DISCARDED_DELIBERATELY;
     fn_resps := []; fn_fault := None |}.

Definition fn_with_resps (q : FinParams) (l : list fsresp) : FinParams :=
  {| fn_cc := fn_cc q; fn_dc := fn_dc q; fn_fs := fn_fs q; fn_resps := l; fn_fault := fn_fault q |}.
Definition fn_with_fault (q : FinParams) (o : option tlv) : FinParams :=
  {| fn_cc := fn_cc q; fn_dc := fn_dc q; fn_fs := fn_fs q; fn_resps := fn_resps q; fn_fault := o |}.

(* the PDU object: FileDirectivePduBase (owning a copy of the caller's PduConfig) and a
   reference to the caller's parameter object *)
Record FinishedPdu := { fin_fdir : fdir; fin_params : FinParams }.

(* might_have_fault_location *)
Definition fin_might_have_fault (q : FinParams) : bool :=
  negb ((fn_cc q =? CC_NO_ERROR) || (fn_cc q =? CC_UNSUPPORTED_CHECKSUM_TYPE)).

(* file_store_responses_len: sum of packet_len over the list *)
Fixpoint resps_len (l : list fsresp) : Z :=
  match l with [] => 0 | r :: t => fsresp_packet_len r + resps_len t end.

(* fault_location_len *)
Definition fin_fault_len (q : FinParams) : Z :=
  match fn_fault q with None => 0 | Some t => tlv_packet_len t end.

(* _calculate_directive_field_len: the fault location is counted only when pack() emits it *)
Definition fin_calc_len (p : FinishedPdu) : res FinishedPdu :=
  let q := fin_params p in
  let base_len := 1 in
  let fault_loc_len :=
    if match fn_fault q with None => true | Some _ => false end || negb (fin_might_have_fault q)
    then 0 else fin_fault_len q in
  let base_len := if cf_crc (h_conf (fd_hdr (fin_fdir p))) =? CRC_WITH_CRC then base_len + 2 else base_len in
  do f <- fdir_set_param_len (fin_fdir p) (base_len + fault_loc_len + resps_len (fn_resps q));
  Ok {| fin_fdir := f; fin_params := q |}.

(* fault_location setter *)
Definition fin_set_fault (p : FinishedPdu) (o : option tlv) : res FinishedPdu :=
  fin_calc_len {| fin_fdir := fin_fdir p; fin_params := fn_with_fault (fin_params p) o |}.

(* file_store_responses setter (None -> []) *)
Definition fin_set_resps (p : FinishedPdu) (o : option (list fsresp)) : res FinishedPdu :=
  fin_calc_len {| fin_fdir := fin_fdir p;
                  fin_params := fn_with_resps (fin_params p) (match o with None => [] | Some l => l end) |}.

(* condition_code setter *)
Definition fin_set_cc (p : FinishedPdu) (cc : Z) : res FinishedPdu :=
  let q := fin_params p in
  fin_calc_len
    {| fin_fdir := fin_fdir p;
       fin_params := {| fn_cc := cc; fn_dc := fn_dc q; fn_fs := fn_fs q; fn_resps := fn_resps q;
                        fn_fault := fn_fault q |} |}.

(* FinishedPdu.__init__(pdu_conf, params): returns the PDU, the caller's PduConfig afterwards
   (the constructor works on copy.copy(pdu_conf)) and the caller's parameter object afterwards
   (the PDU keeps a reference to it; the two setter calls write back the values it already has) *)
Definition fin_new (conf : PduConfig) (params : FinParams)
  : res (FinishedPdu * PduConfig * FinParams) :=
  let conf' := conf_set_dir conf DIR_TOWARDS_SENDER in
  do f <- fdir_new conf' DT_FINISHED 1;
  let p := {| fin_fdir := f; fin_params := params |} in
  do p <- match fn_fault params with
          | Some t => fin_set_fault p (Some t)
          | None => Ok p
          end;
  do p <- fin_set_resps p (Some (fn_resps (fin_params p)));
  Ok (p, conf, fin_params p).

Definition fin_packet_len (p : FinishedPdu) : Z := fdir_packet_len (fin_fdir p).

(* for r in responses: packet.extend(r.pack()) *)
Fixpoint resps_pack (l : list fsresp) (acc : bytes) : res bytes :=
  match l with
  | [] => Ok acc
  | r :: t => do b <- fsresp_pack r; resps_pack t (acc ++ b)
  end.

(* FinishedPdu.pack *)
Definition fin_pack (p : FinishedPdu) : res bytes :=
  let q := fin_params p in
  do b <- fdir_pack (fin_fdir p);
  do b <- ba_append b (Z.lor (Z.lor (Z.shiftl (fn_cc q) 4) (Z.shiftl (fn_dc q) 2)) (fn_fs q));
  do b <- resps_pack (fn_resps q) b;
  do b <- match fn_fault q with
          | Some t => if fin_might_have_fault q then do x <- tlv_pack t; Ok (b ++ x) else Ok b
          | None => Ok b
          end;
  if cf_crc (h_conf (fd_hdr (fin_fdir p))) =? CRC_WITH_CRC then
    do c <- struct_pack 2 (crc16 b); Ok (b ++ c)
  else Ok b.

(* FinishedPdu.__empty(): FinishedPdu(PduConfig.empty(), FinishedParams.empty()) *)
Definition fin_empty : res FinishedPdu :=
  do r <- fin_new conf_empty fn_empty; Ok (fst (fst r)).

(* the `while True` loop of _unpack_tlvs; every iteration consumes at least two octets, the
   fuel supplied by the caller is len(rest_of_packet) + 1 *)
Fixpoint fin_tlv_loop (fuel : nat) (might : bool) (rest : bytes) (idx : Z)
                      (acc : list fsresp) (fault : option tlv)
  : res (list fsresp * option tlv) :=
  match fuel with
  | O => Err EFuel
  | S fuel' =>
    do code <- py_get rest idx;
    do st <- (if code =? TLV_FILESTORE_RESPONSE then
                do r <- fsresp_unpack (slice_from rest idx);
                Ok (idx + fsresp_packet_len r, acc ++ [r], fault)
              else if code =? TLV_ENTITY_ID then
                if negb might then Err EValue else
                do t <- entity_unpack (slice_from rest idx);
                Ok (idx + tlv_packet_len t, acc, Some t)
              else Err EValue);
    let '(idx', acc', fault') := st in
    if idx' >=? len rest then Ok (acc', fault')
    else fin_tlv_loop fuel' might rest idx' acc' fault'
  end.

(* _unpack_tlvs(rest_of_packet): loop, then the two setters *)
Definition fin_unpack_tlvs (p : FinishedPdu) (rest : bytes) : res FinishedPdu :=
  do r <- fin_tlv_loop (S (length rest)) (fin_might_have_fault (fin_params p)) rest 0 [] None;
  let '(resps, fault) := r in
  do p <- fin_set_resps p (Some resps);
  match fault with
  | Some t => fin_set_fault p (Some t)
  | None => Ok p
  end.

(* FinishedPdu.unpack *)
Definition fin_unpack (data : bytes) : res FinishedPdu :=
  do p0 <- fin_empty;
  do f <- fdir_unpack data;
  let p := {| fin_fdir := f; fin_params := fin_params p0 |} in
  do _ <- hdr_verify_length_and_checksum (fd_hdr f) data;
  if fdir_packet_len f >? len data then Err ETooShort else
  let current_idx := fdir_header_len f in
  let end_of_params :=
    if cf_crc (h_conf (fd_hdr f)) =? CRC_WITH_CRC then fdir_packet_len f - 2 else fdir_packet_len f in
  if current_idx >=? end_of_params then Err ETooShort else
  do first_param_byte <- py_get data current_idx;
  do cc <- condition_code_of_int (Z.shiftr (Z.land first_param_byte 240) 4);
  do dc <- delivery_code_of_int (Z.shiftr (Z.land first_param_byte 4) 2);
  do fs <- file_status_of_int (Z.land first_param_byte 3);
  let params := {| fn_cc := cc; fn_dc := dc; fn_fs := fs; fn_resps := []; fn_fault := None |} in
  let p := {| fin_fdir := f; fin_params := params |} in
  let current_idx := current_idx + 1 in
  if end_of_params >? current_idx then
    fin_unpack_tlvs p (slice data current_idx end_of_params)
  else Ok p.

(* ---- equality ---- *)
(* AbstractTlvBase.__eq__ on two FileStoreResponseTlv: same tlv_type, `value` of both
   (which builds the TLV and may raise ValueError) *)
Definition fsresp_eq (a b : fsresp) : res bool :=
  do va <- fsresp_value a; do vb <- fsresp_value b; Ok (bytes_eqb va vb).
(* list.__eq__: lengths first, then element-wise up to the first difference *)
Fixpoint resps_eq_elems (a b : list fsresp) : res bool :=
  match a, b with
  | x :: a', y :: b' => do e <- fsresp_eq x y; if e then resps_eq_elems a' b' else Ok false
  | _, _ => Ok true
  end.
Definition resps_eq (a b : list fsresp) : res bool :=
  if negb (Nat.eqb (length a) (length b)) then Ok false else resps_eq_elems a b.
(* Optional[EntityIdTlv] == Optional[EntityIdTlv] *)
Definition fault_eq (a b : option tlv) : res bool :=
  match a, b with
  | None, None => Ok true
  | Some x, Some y =>      (* EntityIdTlv.__eq__: the numerical values, int.from_bytes(value, "big") *)
      Ok (be_decode (tlv_value x) =? be_decode (tlv_value y))
  | _, _ => Ok false
  end.
(* dataclass __eq__ of FinishedParams: tuple comparison, field by field up to the first
   difference *)
Definition fn_eq (a b : FinParams) : res bool :=
  if negb (fn_cc a =? fn_cc b) then Ok false else
  if negb (fn_dc a =? fn_dc b) then Ok false else
  if negb (fn_fs a =? fn_fs b) then Ok false else
  do e <- resps_eq (fn_resps a) (fn_resps b);
  if negb e then Ok false else fault_eq (fn_fault a) (fn_fault b).
(* FinishedPdu.__eq__ *)
Definition fin_eq (a b : FinishedPdu) : res bool :=
  do e <- fn_eq (fin_params a) (fin_params b);
  if negb e then Ok false else Ok (fdir_eqb (fin_fdir a) (fin_fdir b)).

(* ---- alternate construction paths ---- *)
(* FinishedParams.success_params() *)
Definition fn_success : FinParams :=
  {| fn_cc := CC_NO_ERROR; fn_dc := DC_DATA_COMPLETE; fn_fs := FS_FILE_RETAINED;
     fn_resps := []; fn_fault := None |}.
(* FinishedPdu.success_pdu(pdu_conf) *)
Definition fin_success_pdu (conf : PduConfig) : res (FinishedPdu * PduConfig * FinParams) :=
  fin_new conf fn_success.

(* FinishedPdu.__init__ for a parameter object whose file_store_responses attribute is None
   (the annotation says List, the constructor and the setter accept None): the responses setter
   is skipped, the length is calculated directly (repair: before it, nothing calculated the
   length when the fault location was None as well, so the two CRC octets were not counted).
   The record carries [] for the attribute; that the caller's attribute stays None is tracked by
   the history interpreter (Run/DirHist.v). *)
Definition fin_new_none (conf : PduConfig) (params : FinParams)
  : res (FinishedPdu * PduConfig * FinParams) :=
  let conf' := conf_set_dir conf DIR_TOWARDS_SENDER in
  do f <- fdir_new conf' DT_FINISHED 1;
  let p := {| fin_fdir := f; fin_params := fn_with_resps params [] |} in
  do p <- match fn_fault params with
          | Some t => fin_set_fault p (Some t)
          | None => Ok p
          end;
  do p <- fin_calc_len p;
  Ok (p, conf, fin_params p).
