(* Model of spacepackets/cfdp/pdu/file_data.py (FileDataPdu, SegmentMetadata,
   FileDataParams, get_max_file_seg_len_for_max_packet_len_and_pdu_cfg).
   Definitions only. *)
From Coq Require Import ZArith List Bool.
From SP Require Import Base.Result Base.Bytes Base.Crc16 Model.PduHeader.
Import ListNotations.
Open Scope Z_scope.

(* RecordContinuationState *)
Definition RCS_NO_START_NO_END : Z := 0.
Definition RCS_START_WITHOUT_END : Z := 1.
Definition RCS_END_WITHOUT_START : Z := 2.
Definition RCS_START_AND_END : Z := 3.

Record SegMeta := { sm_state : Z; sm_data : bytes }.
Record FdParams := { fp_data : bytes; fp_offset : Z; fp_meta : option SegMeta }.

(* FileDataParams.empty() *)
Definition fp_empty : FdParams := {| fp_data := []; fp_offset := 0; fp_meta := None |}.

(* the PDU object: its header (which owns a copy of the caller's PduConfig) and a
   reference to the parameter object *)
Record FileDataPdu := { fd_hdr : PduHeader; fd_params : FdParams }.

Definition fd_with_hdr (p : FileDataPdu) (h : PduHeader) : FileDataPdu :=
  {| fd_hdr := h; fd_params := fd_params p |}.
Definition fd_with_params (p : FileDataPdu) (q : FdParams) : FileDataPdu :=
  {| fd_hdr := fd_hdr p; fd_params := q |}.

(* _calculate_pdu_data_field_len *)
Definition fd_calc_len (p : FileDataPdu) : res FileDataPdu :=
  let q := fd_params p in
  let l0 := match fp_meta q with Some m => 1 + len (sm_data m) | None => 0 end in
  let l1 := if hdr_large_file (fd_hdr p) then l0 + 8 else l0 + 4 in
  let l2 := l1 + len (fp_data q) in
  let l3 := if cf_crc (h_conf (fd_hdr p)) =? CRC_WITH_CRC then l2 + 2 else l2 in
  do h <- hdr_set_dlen (fd_hdr p) l3;
  Ok (fd_with_hdr p h).

(* FileDataPdu.__init__(pdu_conf, params): returns the PDU and the caller's PduConfig
   afterwards (the constructor works on copy.copy(pdu_conf), so the caller's object is
   untouched) *)
Definition fd_new (conf : PduConfig) (params : FdParams) : res (FileDataPdu * PduConfig) :=
  let conf' := conf_set_dir conf DIR_TOWARDS_RECEIVER in
  let flag := match fp_meta params with Some _ => SEGMETA_PRESENT | None => SEGMETA_NOT_PRESENT end in
  do h <- hdr_new PDU_FILE_DATA flag 0 conf';
  do p <- fd_calc_len {| fd_hdr := h; fd_params := params |};
  Ok (p, conf).

(* segment_metadata setter *)
Definition fd_set_meta (p : FileDataPdu) (m : option SegMeta) : res FileDataPdu :=
  let q := fd_params p in
  let p1 := fd_with_params p {| fp_data := fp_data q; fp_offset := fp_offset q; fp_meta := m |} in
  let p2 := fd_with_hdr p1 (hdr_set_meta (fd_hdr p1)
              (match m with None => SEGMETA_NOT_PRESENT | Some _ => SEGMETA_PRESENT end)) in
  fd_calc_len p2.

(* file_data setter *)
Definition fd_set_data (p : FileDataPdu) (d : bytes) : res FileDataPdu :=
  let q := fd_params p in
  fd_calc_len (fd_with_params p {| fp_data := d; fp_offset := fp_offset q; fp_meta := fp_meta q |}).

Definition fd_packet_len (p : FileDataPdu) : Z := hdr_packet_len (fd_hdr p).

(* FileDataPdu.pack *)
Definition fd_pack (p : FileDataPdu) : res bytes :=
  let q := fd_params p in
  do b <- hdr_pack (fd_hdr p);
  do b <- match fp_meta q with
          | Some m =>
              let len_metadata := len (sm_data m) in
              if len_metadata >? 63 then Err EValue else
              do b <- ba_append b (Z.lor (Z.shiftl (sm_state m) 6) len_metadata);
              Ok (if len_metadata >? 0 then b ++ sm_data m else b)
          | None => Ok b
          end;
  do off <- (if negb (hdr_large_file (fd_hdr p)) then struct_pack 4 (fp_offset q)
             else struct_pack 8 (fp_offset q));
  let b := b ++ off in
  let b := b ++ fp_data q in
  if cf_crc (h_conf (fd_hdr p)) =? CRC_WITH_CRC then
    do c <- struct_pack 2 (crc16 b); Ok (b ++ c)
  else Ok b.

(* FileDataPdu.__empty() *)
Definition fd_empty : res FileDataPdu :=
  do r <- fd_new conf_empty fp_empty; Ok (fst r).

(* FileDataPdu.unpack *)
Definition fd_unpack (data : bytes) : res FileDataPdu :=
  do p <- fd_empty;
  do h <- hdr_unpack data;
  let p := fd_with_hdr p h in
  do packet_len <- hdr_verify_length_and_checksum h data;
  let end_of_file_data :=
    if cf_crc (h_conf (fd_hdr p)) =? CRC_WITH_CRC then packet_len - 2 else packet_len in
  let current_idx := hdr_header_len (fd_hdr p) in
  do st <- (if negb (h_meta (fd_hdr p) =? 0) then
              if current_idx >=? end_of_file_data then Err ETooShort else
              do b <- py_get data current_idx;
              let rec_cont_state := Z.shiftr (Z.land b 192) 6 in
              let segment_metadata_len := Z.land b 63 in
              let current_idx := current_idx + 1 in
              if current_idx + segment_metadata_len >? end_of_file_data then Err ETooShort else
              let metadata := slice data current_idx (current_idx + segment_metadata_len) in
              let current_idx := current_idx + segment_metadata_len in
              let q := fd_params p in
              Ok (fd_with_params p
                    {| fp_data := fp_data q; fp_offset := fp_offset q;
                       fp_meta := Some {| sm_state := rec_cont_state; sm_data := metadata |} |},
                  current_idx)
            else Ok (p, current_idx));
  let '(p, current_idx) := st in
  let n := if negb (hdr_large_file (fd_hdr p)) then 4 else 8 in
  if current_idx + n >? end_of_file_data then Err EValue else
  do off <- struct_unpack (Z.to_nat n) (slice data current_idx (current_idx + n));
  let q := fd_params p in
  let p := fd_with_params p {| fp_data := fp_data q; fp_offset := off; fp_meta := fp_meta q |} in
  let current_idx := current_idx + n in
  if current_idx <? end_of_file_data then
    let q := fd_params p in
    Ok (fd_with_params p {| fp_data := slice data current_idx end_of_file_data;
                            fp_offset := fp_offset q; fp_meta := fp_meta q |})
  else Ok p.

(* dataclass equality of the parameter objects, AbstractPduBase.__eq__ of the headers *)
Definition sm_eqb (a b : option SegMeta) : bool :=
  match a, b with
  | None, None => true
  | Some x, Some y => (sm_state x =? sm_state y) && bytes_eqb (sm_data x) (sm_data y)
  | _, _ => false
  end.
Definition fp_eqb (a b : FdParams) : bool :=
  bytes_eqb (fp_data a) (fp_data b) && (fp_offset a =? fp_offset b) && sm_eqb (fp_meta a) (fp_meta b).
Definition fd_eqb (a b : FileDataPdu) : bool :=
  hdr_eqb (fd_hdr a) (fd_hdr b) && fp_eqb (fd_params a) (fd_params b).

(* get_max_file_seg_len_for_max_packet_len_and_pdu_cfg *)
Definition get_max_file_seg_len (conf : PduConfig) (max_packet_len : Z) (m : option SegMeta) : res Z :=
  let subtract := conf_header_len conf in
  let subtract := match m with Some s => subtract + (1 + len (sm_data s)) | None => subtract end in
  let subtract := if cf_large conf =? FILE_LARGE then subtract + 8 else subtract + 4 in
  let subtract := if cf_crc conf =? CRC_WITH_CRC then subtract + 2 else subtract in
  if max_packet_len <? subtract then Err EValue else Ok (max_packet_len - subtract).
