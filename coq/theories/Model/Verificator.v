(* Model of spacepackets/ecss/pus_verificator.py (PusVerificator) and of the
   request-id key (RequestId.as_u32 / __hash__ / __eq__, ecss/req_id.py).
   Definitions only.

   The dictionary RequestId -> VerificationStatus is an association list keyed by
   the request id's 32-bit value (what __hash__/__eq__ induce), in insertion order.
   VerificationStatus objects are mutated in place by add_tm: the entry keeps its
   position. *)
From Coq Require Import ZArith List Bool.
From SP Require Import Base.Result Base.Bytes Model.SpacePacket.
Import ListNotations.
Open Scope Z_scope.

(* StatusField *)
Definition UNSET : Z := -1.
Definition FAILURE : Z := 0.
Definition SUCCESS : Z := 1.

(* Subservice *)
Definition TM_ACCEPTANCE_SUCCESS : Z := 1.
Definition TM_ACCEPTANCE_FAILURE : Z := 2.
Definition TM_START_SUCCESS : Z := 3.
Definition TM_START_FAILURE : Z := 4.
Definition TM_STEP_SUCCESS : Z := 5.
Definition TM_STEP_FAILURE : Z := 6.
Definition TM_COMPLETION_SUCCESS : Z := 7.
Definition TM_COMPLETION_FAILURE : Z := 8.

(* ---- RequestId ---- *)
Record reqid := { r_ver : Z; r_pid : pid; r_psc : psc }.

Definition reqid_as_u32 (r : reqid) : Z :=
  let packet_id_and_version := Z.lor (Z.shiftl (r_ver r) 13) (pid_raw (r_pid r)) in
  Z.lor (Z.shiftl packet_id_and_version 16) (psc_raw (r_psc r)).

(* RequestId.from_sp_header *)
Definition reqid_from_sp_header (h : sph) : reqid :=
  {| r_ver := ver h; r_pid := sph_pid h; r_psc := sph_psc h |}.

(* ---- VerificationStatus (bool as 0/1) ---- *)
Record vstatus := {
  recvd : Z;             (* all_verifs_recvd *)
  acc : Z;               (* accepted *)
  sta : Z;               (* started *)
  step : Z;
  steps : list Z;        (* step_list *)
  comp : Z               (* completed *)
}.

Definition vstatus_init : vstatus :=
  {| recvd := 0; acc := UNSET; sta := UNSET; step := UNSET; steps := []; comp := UNSET |}.

Definition set_recvd (s : vstatus) (v : Z) := {| recvd := v; acc := acc s; sta := sta s; step := step s; steps := steps s; comp := comp s |}.
Definition set_acc (s : vstatus) (v : Z) := {| recvd := recvd s; acc := v; sta := sta s; step := step s; steps := steps s; comp := comp s |}.
Definition set_sta (s : vstatus) (v : Z) := {| recvd := recvd s; acc := acc s; sta := v; step := step s; steps := steps s; comp := comp s |}.
Definition set_step (s : vstatus) (v : Z) := {| recvd := recvd s; acc := acc s; sta := sta s; step := v; steps := steps s; comp := comp s |}.
Definition append_step (s : vstatus) (k : Z) := {| recvd := recvd s; acc := acc s; sta := sta s; step := step s; steps := steps s ++ [k]; comp := comp s |}.
Definition set_comp (s : vstatus) (v : Z) := {| recvd := recvd s; acc := acc s; sta := sta s; step := step s; steps := steps s; comp := v |}.

(* ---- the dictionary ---- *)
Definition vdict := list (Z * vstatus).

Fixpoint lookup (k : Z) (d : vdict) : option vstatus :=
  match d with
  | [] => None
  | (k', s) :: r => if k' =? k then Some s else lookup k r
  end.

Definition mem (k : Z) (d : vdict) : bool := match lookup k d with Some _ => true | None => false end.

(* the status object of key k is mutated in place *)
Fixpoint replace (k : Z) (s : vstatus) (d : vdict) : vdict :=
  match d with
  | [] => []
  | (k', s') :: r => if k' =? k then (k', s) :: r else (k', s') :: replace k s r
  end.

(* del d[k] *)
Fixpoint delete (k : Z) (d : vdict) : vdict :=
  match d with
  | [] => []
  | (k', s') :: r => if k' =? k then r else (k', s') :: delete k r
  end.

(* ---- the service-1 report as the tracker reads it ---- *)
Record report := { rep_id : reqid; rep_sub : Z; rep_step : option Z (* step_id.val, None: no step id *) }.

(* _check_all_replies_recvd_after_step *)
Definition check_all_replies_recvd_after_step (s : vstatus) : vstatus :=
  if negb (acc s =? UNSET) && negb (sta s =? UNSET) then set_recvd s 1 else s.

(* pus_1_tm.step_id.val : AttributeError when the report carries no step id.
   Returned with the status as mutated so far (the object is mutated in place). *)
Definition step_val (r : report) : res Z :=
  match rep_step r with Some v => Ok v | None => Err EAttribute end.

(* _check_subservice (with _handle_step_failure inlined where it is called):
   returns the (possibly partially) mutated status and either the completed flag of the
   result or the exception raised. *)
Definition check_subservice (r : report) (s : vstatus) : vstatus * res bool :=
  let subservice := rep_sub r in
  let completed := (subservice mod 2 =? 0) in
  if subservice =? TM_ACCEPTANCE_SUCCESS then
    (set_acc s SUCCESS, Ok completed)
  else if subservice =? TM_ACCEPTANCE_FAILURE then
    (set_acc (set_recvd s 1) FAILURE, Ok true)
  else if subservice =? TM_START_SUCCESS then
    (set_sta s SUCCESS, Ok completed)
  else if subservice =? TM_START_FAILURE then
    let s1 := if negb (acc s =? UNSET) then set_recvd s 1 else s in
    (set_sta s1 FAILURE, Ok true)
  else if subservice =? TM_STEP_SUCCESS then
    let s1 := if step s =? UNSET then set_step s SUCCESS else s in
    match step_val r with
    | Ok v => (append_step s1 v, Ok completed)
    | Err e => (s1, Err e)
    end
  else if subservice =? TM_STEP_FAILURE then
    (* _handle_step_failure *)
    let s1 := check_all_replies_recvd_after_step s in
    let s2 := set_step s1 FAILURE in
    match step_val r with
    | Ok v => (append_step s2 v, Ok true)
    | Err e => (s2, Err e)
    end
  else if subservice =? TM_COMPLETION_SUCCESS then
    let s1 := check_all_replies_recvd_after_step s in
    (set_comp s1 SUCCESS, Ok true)
  else if subservice =? TM_COMPLETION_FAILURE then
    let s1 := check_all_replies_recvd_after_step s in
    (set_comp s1 FAILURE, Ok true)
  else (s, Ok completed).

(* add_tc: returns (new dict, True/False) *)
Definition add_tc (d : vdict) (tc_hdr : sph) : vdict * bool :=
  let k := reqid_as_u32 (reqid_from_sp_header tc_hdr) in
  if mem k d then (d, false) else (d ++ [(k, vstatus_init)], true).

(* add_tm: returns (new dict, None | TmCheckResult(status, completed) | exception).
   The returned status is the dictionary's own object. *)
Definition add_tm (d : vdict) (r : report) : vdict * res (option (vstatus * bool)) :=
  let k := reqid_as_u32 (rep_id r) in
  match lookup k d with
  | None => (d, Ok None)
  | Some s =>
    if (rep_sub r <=? 0) || (rep_sub r >? 8) then (d, Err EValue)
    else
      let '(s', c) := check_subservice r s in
      (replace k s' d,
       match c with Ok b => Ok (Some (s', b)) | Err e => Err e end)
  end.

(* remove_completed_entries *)
Definition remove_completed_entries (d : vdict) : vdict :=
  filter (fun e => recvd (snd e) =? 0) d.     (* if not val.all_verifs_recvd *)

(* remove_entry *)
Definition remove_entry (d : vdict) (r : reqid) : vdict * bool :=
  let k := reqid_as_u32 r in
  if mem k d then (delete k d, true) else (d, false).

(* ---- histories ---- *)
Inductive vop :=
| AddTc (h : sph)
| AddTm (r : report)
| RemoveEntry (r : reqid)
| RemoveCompleted.

Inductive vout :=
| OBool (b : bool)                       (* add_tc / remove_entry *)
| ONone                                  (* add_tm: unknown request id; remove_completed_entries *)
| OResult (s : vstatus) (completed : bool)
| ORaise (e : err).

Definition vstep (d : vdict) (o : vop) : vdict * vout :=
  match o with
  | AddTc h => let '(d', b) := add_tc d h in (d', OBool b)
  | AddTm r =>
    let '(d', x) := add_tm d r in
    (d', match x with
         | Ok None => ONone
         | Ok (Some (s, c)) => OResult s c
         | Err e => ORaise e
         end)
  | RemoveEntry r => let '(d', b) := remove_entry d r in (d', OBool b)
  | RemoveCompleted => (remove_completed_entries d, ONone)
  end.

(* observation after every call: (return value, dictionary) *)
Fixpoint vrun (d : vdict) (ops : list vop) : list (vout * vdict) :=
  match ops with
  | [] => []
  | o :: r => let '(d', x) := vstep d o in (x, d') :: vrun d' r
  end.

Definition vfinal (d : vdict) (ops : list vop) : vdict := fold_left (fun d o => fst (vstep d o)) ops d.

(* ---- results kept by the caller, and caller-side edits ----
   A TmCheckResult handed out by add_tm is a fresh object per call: its `completed` flag is its
   own, its `status` is a REFERENCE to the dictionary's VerificationStatus object of that
   telecommand.  No later call touches the result object; later reports for the same telecommand
   mutate the status object it refers to for as long as that object is the dictionary's entry;
   remove_entry / remove_completed_entries detach the object (a later add_tc of the same request id
   creates a new one), after which it keeps the state it had.
   A kept result is (key, still the dictionary's object?, status as read now, completed). *)
Record kept := { k_key : Z; k_live : bool; k_status : vstatus; k_completed : bool }.

Definition refresh (d : vdict) (r : kept) : kept :=
  if k_live r then
    match lookup (k_key r) d with
    | Some s => {| k_key := k_key r; k_live := true; k_status := s; k_completed := k_completed r |}
    | None => {| k_key := k_key r; k_live := false; k_status := k_status r; k_completed := k_completed r |}
    end
  else r.

(* a history step as the caller sees it: a tracker call, or the caller editing (setters of the
   telecommand / its space packet header) a telecommand object it had registered earlier or had
   built a report from.  The tracker keeps its own copy of the request id
   (RequestId.from_sp_header copies the packet id and the sequence control), so the edit is not a
   tracker operation at all. *)
Inductive hop := HOp (o : vop) | HCallerEdit.

Definition hstep (d : vdict) (o : hop) : vdict * vout :=
  match o with HOp o => vstep d o | HCallerEdit => (d, ONone) end.

Definition keep (o : hop) (x : vout) (ks : list kept) : list kept :=
  match o, x with
  | HOp (AddTm r), OResult s c =>
    ks ++ [{| k_key := reqid_as_u32 (rep_id r); k_live := true; k_status := s; k_completed := c |}]
  | _, _ => ks
  end.

(* observations after every step, the dictionary at the end, and every result handed out, as it
   reads at the end of the history *)
Fixpoint hrun (d : vdict) (ks : list kept) (ops : list hop) : list (vout * vdict) * vdict * list kept :=
  match ops with
  | [] => ([], d, ks)
  | o :: r =>
    let '(d', x) := hstep d o in
    let '(obs, df, kf) := hrun d' (keep o x (map (refresh d') ks)) r in
    ((x, d') :: obs, df, kf)
  end.
