(* Model of spacepackets/ecss/tm.py (PusTmSecondaryHeader, PusTm) and
   spacepackets/ecss/pus_17_test.py (Service17Tm).  Definitions only. *)
From Coq Require Import ZArith List Bool.
From SP Require Import Base.Result Base.Bytes Base.Crc16 Model.SpacePacket Model.PusTc.
Import ListNotations.
Open Scope Z_scope.

Definition TMSEC_MIN_LEN : Z := 7.
Definition PUS_TM_TIMESTAMP_OFFSET : Z := CCSDS_HEADER_LEN + TMSEC_MIN_LEN.
Definition S17_TEST : Z := 17.

Record tmsec := {
  tms_version : Z; tms_ref : Z; tms_service : Z; tms_subservice : Z;
  tms_msgcnt : Z; tms_dest : Z; tms_stamp : bytes }.

Definition tmsec_new (service subservice : Z) (timestamp : bytes) (msgcnt dest ref : Z) : res tmsec :=
  if (service >? 255) || (service <? 0) then Err EValue else
  if (subservice >? 255) || (subservice <? 0) then Err EValue else
  if (msgcnt >? 65535) || (msgcnt <? 0) then Err EValue else
  Ok {| tms_version := PUS_C; tms_ref := ref; tms_service := service; tms_subservice := subservice;
        tms_msgcnt := msgcnt; tms_dest := dest; tms_stamp := timestamp |}.

Definition tmsec_pack (s : tmsec) : res bytes :=
  do r0 <- ba_append [] (Z.lor (Z.shiftl (tms_version s) 4) (tms_ref s));
  do r1 <- ba_append r0 (tms_service s);
  do r2 <- ba_append r1 (tms_subservice s);
  do mc <- struct_pack 2 (tms_msgcnt s);
  do di <- struct_pack 2 (tms_dest s);
  Ok (r2 ++ mc ++ di ++ tms_stamp s).

Definition tmsec_header_size (s : tmsec) : Z := 7 + len (tms_stamp s).

Definition tmsec_unpack (data : bytes) (timestamp_len : Z) : res tmsec :=
  if len data <? TMSEC_MIN_LEN then Err ETooShort else
  do d0 <- py_get data 0;
  let version := Z.shiftr (Z.land d0 240) 4 in
  if negb (version =? PUS_C) then Err EValue else
  let ref := Z.land d0 15 in
  if TMSEC_MIN_LEN + timestamp_len >? len data then Err ETooShort else
  do service <- py_get data 1;
  do subservice <- py_get data 2;
  do mc <- struct_unpack 2 (slice data 3 5);
  do di <- struct_unpack 2 (slice data 5 7);
  Ok {| tms_version := version; tms_ref := ref; tms_service := service;
        tms_subservice := subservice; tms_msgcnt := mc; tms_dest := di;
        tms_stamp := slice data 7 (7 + timestamp_len) |}.

Record tm := { tm_sph : sph; tm_sec : tmsec; tm_src : bytes; tm_crc : option bytes }.

Definition tm_data_len (timestamp_len source_data_len : Z) : Z :=
  TMSEC_MIN_LEN + timestamp_len + source_data_len + 1.

(* PusTm.__init__ *)
Definition tm_new (service subservice : Z) (timestamp source : bytes)
           (apid seq_count msgcnt ref dest version : Z) : res tm :=
  let data_length := tm_data_len (len timestamp) (len source) in
  do h <- sph_new PT_TM apid seq_count data_length 1 SF_UNSEG version;
  do s <- tmsec_new service subservice timestamp msgcnt dest ref;
  Ok {| tm_sph := h; tm_sec := s; tm_src := source; tm_crc := None |}.

Definition tm_packet_len (t : tm) : Z := sph_packet_len (tm_sph t).

Definition tm_pack (t : tm) : res (bytes * tm) :=
  do h <- sph_pack (tm_sph t);
  do s <- tmsec_pack (tm_sec t);
  let body := h ++ s ++ tm_src t in
  do c <- struct_pack 2 (crc16 body);
  Ok (body ++ c, {| tm_sph := tm_sph t; tm_sec := tm_sec t; tm_src := tm_src t; tm_crc := Some c |}).

Definition tm_calc_crc (t : tm) : res tm :=
  do h <- sph_pack (tm_sph t);
  do s <- tmsec_pack (tm_sec t);
  do c <- struct_pack 2 (crc16 (h ++ s ++ tm_src t));
  Ok {| tm_sph := tm_sph t; tm_sec := tm_sec t; tm_src := tm_src t; tm_crc := Some c |}.

Definition tm_to_space_packet_pack (t : tm) : res bytes :=
  do t' <- tm_calc_crc t;
  do s <- tmsec_pack (tm_sec t');
  match tm_crc t' with
  | Some c => space_packet_pack (tm_sph t') (Some s) (Some (tm_src t' ++ c))
  | None => Err EType
  end.

Definition tm_unpack (data : bytes) (timestamp_len : Z) : res tm :=
  do h <- sph_unpack data;
  let expected_packet_len := get_total_space_packet_len_from_len_field (dlen h) in
  if expected_packet_len >? len data then Err ETooShort else
  do s <- tmsec_unpack (slice_from data CCSDS_HEADER_LEN) timestamp_len;
  if expected_packet_len <? tmsec_header_size s + CCSDS_HEADER_LEN + 2 then Err EValue else
  let src := slice data (tmsec_header_size s + CCSDS_HEADER_LEN) (expected_packet_len - 2) in
  let crc := slice data (expected_packet_len - 2) expected_packet_len in
  if negb (crc16 (slice_to data expected_packet_len) =? 0) then Err ECrc else
  Ok {| tm_sph := h; tm_sec := s; tm_src := src; tm_crc := Some crc |}.

Definition tm_service_from_bytes (raw : bytes) : res Z :=
  if len raw <? 8 then Err EValue else py_get raw 7.

Definition tmsec_eqb (a b : tmsec) : bool :=
  match tmsec_pack a, tmsec_pack b with
  | Ok x, Ok y => bytes_eqb x y
  | _, _ => false
  end.
Definition tm_eqb (a b : tm) : bool :=
  sph_eqb (tm_sph a) (tm_sph b) && tmsec_eqb (tm_sec a) (tm_sec b) && bytes_eqb (tm_src a) (tm_src b).

(* tm_data setter: keeps the data length field in step *)
Definition tm_set_tm_data (t : tm) (d : bytes) : tm :=
  let h := tm_sph t in
  {| tm_sph := {| ver := ver h; ptype := ptype h; shf := shf h; apid := apid h;
                  sflags := sflags h; scount := scount h;
                  dlen := tm_data_len (len (tms_stamp (tm_sec t))) (len d) |};
     tm_sec := tm_sec t; tm_src := d; tm_crc := tm_crc t |}.

(* Service17Tm: a thin wrapper *)
Definition srv17_new (apid subservice : Z) (timestamp : bytes) (ssc : Z) (source : bytes)
           (version ref dest : Z) : res tm :=
  tm_new S17_TEST subservice timestamp source apid ssc 0 ref dest version.
Definition srv17_pack := tm_pack.
Definition srv17_unpack := tm_unpack.

(* ---- operation histories on a telemetry object ---- *)
Inductive tm_op := TmPack | TmCalcCrc | TmSetData (d : bytes) | TmSetApid (v : Z) | TmSetSeqFlags (v : Z).

Definition tm_apply (t : tm) (o : tm_op) : res tm :=
  match o with
  | TmPack => do r <- tm_pack t; Ok (snd r)
  | TmCalcCrc => tm_calc_crc t
  | TmSetData d => Ok (tm_set_tm_data t d)
  | TmSetApid v =>
      let h := tm_sph t in
      Ok {| tm_sph := {| ver := ver h; ptype := ptype h; shf := shf h; apid := v; sflags := sflags h;
                         scount := scount h; dlen := dlen h |};
            tm_sec := tm_sec t; tm_src := tm_src t; tm_crc := tm_crc t |}
  | TmSetSeqFlags v =>
      let h := tm_sph t in
      Ok {| tm_sph := {| ver := ver h; ptype := ptype h; shf := shf h; apid := apid h; sflags := v;
                         scount := scount h; dlen := dlen h |};
            tm_sec := tm_sec t; tm_src := tm_src t; tm_crc := tm_crc t |}
  end.

Fixpoint tm_run (t : tm) (ops : list tm_op) : res tm :=
  match ops with
  | [] => Ok t
  | o :: r => do t' <- tm_apply t o; tm_run t' r
  end.
