(* Model of spacepackets/cfdp/pdu/ack.py (TransactionStatus, AckPdu).  Definitions only. *)
From Coq Require Import ZArith List Bool.
From SP Require Import Base.Result Base.Bytes Base.Crc16 Model.PduHeader Model.FileDirective.
Import ListNotations.
Open Scope Z_scope.

Definition TS_UNDEFINED : Z := 0.
Definition TS_ACTIVE : Z := 1.
Definition TS_TERMINATED : Z := 2.
Definition TS_UNRECOGNIZED : Z := 3.

Record AckPdu := { ack_fd : fdir; ack_code : Z; ack_subtype : Z; ack_cc : Z; ack_status : Z }.

(* _calculate_directive_field_len *)
Definition ack_calc_len (p : AckPdu) : res AckPdu :=
  let l := 2 in
  let l := if cf_crc (h_conf (fd_hdr (ack_fd p))) =? CRC_WITH_CRC then l + 2 else l in
  do f <- fdir_set_param_len (ack_fd p) l;
  Ok {| ack_fd := f; ack_code := ack_code p; ack_subtype := ack_subtype p; ack_cc := ack_cc p;
        ack_status := ack_status p |}.

(* AckPdu.__init__(pdu_conf, directive_code_of_acked_pdu, condition_code_of_acked_pdu,
   transaction_status): the PDU and the caller's PduConfig afterwards *)
Definition ack_new (conf : PduConfig) (code cc status : Z) : res (AckPdu * PduConfig) :=
  if negb ((code =? DT_FINISHED) || (code =? DT_EOF)) then Err EValue else
  let '(conf', subtype) :=
    if code =? DT_FINISHED then (conf_set_dir conf DIR_TOWARDS_RECEIVER, 1)
    else (conf_set_dir conf DIR_TOWARDS_SENDER, 0) in
  do f <- fdir_new conf' DT_ACK 2;
  do p <- ack_calc_len {| ack_fd := f; ack_code := code; ack_subtype := subtype; ack_cc := cc;
                          ack_status := status |};
  Ok (p, conf).

Definition ack_packet_len (p : AckPdu) : Z := fdir_packet_len (ack_fd p).

(* AckPdu.pack *)
Definition ack_pack (p : AckPdu) : res bytes :=
  do b <- fdir_pack (ack_fd p);
  do b <- ba_append b (Z.lor (Z.shiftl (ack_code p) 4) (ack_subtype p));
  do b <- ba_append b (Z.lor (Z.shiftl (ack_cc p) 4) (ack_status p));
  if cf_crc (h_conf (fd_hdr (ack_fd p))) =? CRC_WITH_CRC then
    do c <- struct_pack 2 (crc16 b); Ok (b ++ c)
  else Ok b.

(* AckPdu.__empty() *)
Definition ack_empty : res AckPdu :=
  do r <- ack_new conf_empty DT_FINISHED 0 TS_UNDEFINED; Ok (fst r).

(* AckPdu.unpack *)
Definition ack_unpack (data : bytes) : res AckPdu :=
  do p <- ack_empty;
  do f <- fdir_unpack data;
  do _ <- hdr_verify_length_and_checksum (fd_hdr f) data;
  (* data = data[:end_of_params]: the octets of this PDU in front of its CRC trailer *)
  let end_of_params :=
    if cf_crc (h_conf (fd_hdr f)) =? CRC_WITH_CRC then fdir_packet_len f - 2 else fdir_packet_len f in
  let data := slice_to data end_of_params in
  let current_idx := fdir_header_len f in
  if current_idx + 2 >? len data then Err ETooShort else
  do b0 <- py_get data current_idx;
  let code := Z.shiftr (Z.land b0 240) 4 in
  let subtype := Z.land b0 15 in
  let current_idx := current_idx + 1 in
  do b1 <- py_get data current_idx;
  let cc := Z.shiftr (Z.land b1 240) 4 in
  let status := Z.land b1 3 in
  Ok {| ack_fd := f; ack_code := code; ack_subtype := subtype; ack_cc := cc; ack_status := status |}.

Definition ack_eqb (a b : AckPdu) : bool :=
  fdir_eqb (ack_fd a) (ack_fd b) && (ack_code a =? ack_code b) && (ack_subtype a =? ack_subtype b) &&
  (ack_cc a =? ack_cc b) && (ack_status a =? ack_status b).
