(* Model of spacepackets/ccsds/time/cds.py (integer core) and the two conversion helpers of
   spacepackets/ccsds/time/common.py.  Definitions only.
   A timestamp object is the pair (_ccsds_days, _ms_of_day); the cached float / datetime
   views (_unix_seconds, _datetime) are functions of that pair and live in Model/CdsFloat.v. *)
From Coq Require Import ZArith List Bool.
From SP Require Import Base.Result Base.Bytes.
Import ListNotations.
Open Scope Z_scope.

(* common.py *)
Definition DAYS_CCSDS_TO_UNIX : Z := -4383.
Definition SECONDS_PER_DAY : Z := 86400.
Definition MS_PER_DAY : Z := 86400000.
Definition TIME_CODE_CDS : Z := 4.          (* CcsdsTimeCodeId.CDS *)
(* cds.py *)
Definition CDS_SHORT_ID : Z := 4.
Definition TIMESTAMP_SIZE : Z := 7.
Definition DAYS_16_BITS : Z := 0.           (* LenOfDaysSegment *)
Definition DAYS_24_BITS : Z := 1.

Definition convert_unix_days_to_ccsds_days (unix_days : Z) : Z := unix_days - DAYS_CCSDS_TO_UNIX.
Definition convert_ccsds_days_to_unix_days (ccsds_days : Z) : Z := ccsds_days + DAYS_CCSDS_TO_UNIX.

Record cds := { cdays : Z; cms : Z }.

(* __init__ stores its arguments unchecked *)
Definition cds_new (ccsds_days ms_of_day : Z) : cds := {| cdays := ccsds_days; cms := ms_of_day |}.
Definition cds_pfield : bytes := [Z.shiftl CDS_SHORT_ID 4].
Definition cds_len_packed (t : cds) : Z := TIMESTAMP_SIZE.
(* CcsdsTimeProvider.ccsds_time_code *)
Definition cds_time_code (t : cds) : res Z :=
  do p <- py_get cds_pfield 0; Ok (Z.land (Z.shiftr p 4) 7).

Definition cds_pack (t : cds) : res bytes :=
  do d <- struct_pack 2 (cdays t);
  do m <- struct_pack 4 (cms t);
  Ok (cds_pfield ++ d ++ m).

Definition cds_from_unix_days (unix_days ms_of_day : Z) : cds :=
  cds_new (convert_unix_days_to_ccsds_days unix_days) ms_of_day.
Definition cds_empty : cds := cds_new 0 0.

(* LenOfDaysSegment((pfield >> 2) & 0b1) *)
Definition len_of_day_seg_from_pfield (pfield : Z) : res Z :=
  let v := Z.land (Z.shiftr pfield 2) 1 in
  if (v =? DAYS_16_BITS) || (v =? DAYS_24_BITS) then Ok v else Err EValue.

Definition cds_unpack_from_raw (data : bytes) : res (Z * Z) :=
  if len data <? TIMESTAMP_SIZE then Err ETooShort else
  do p_field <- py_get data 0;
  if negb (Z.land (Z.shiftr p_field 4) 7 =? TIME_CODE_CDS) then Err EValue else
  do len_of_day <- len_of_day_seg_from_pfield p_field;
  if negb (len_of_day =? DAYS_16_BITS) then Err EValue else
  do ccsds_days <- struct_unpack 2 (slice data 1 3);
  do ms_of_day <- struct_unpack 4 (slice data 3 7);
  Ok (ccsds_days, ms_of_day).

(* classmethod unpack and read_from_raw *)
Definition cds_unpack (data : bytes) : res cds :=
  do (d, ms) <- cds_unpack_from_raw data; Ok (cds_new d ms).

Definition cds_eqb (a b : cds) : bool := (cdays a =? cdays b) && (cms a =? cms b).

(* __add__ for a datetime.timedelta given by its normalised attributes
   (days any sign, 0 <= seconds < 86400, 0 <= microseconds < 10^6) *)
Definition cds_add (t : cds) (td_days td_seconds td_microseconds : Z) : res cds :=
  let ms := cms t + (td_microseconds / 1000 + td_seconds * 1000) in
  do (ms, days) <-
    (if ms >=? MS_PER_DAY then
       let days := cdays t + 1 in
       if days >? 2 ^ 16 - 1 then Err EOverflow else Ok (ms - MS_PER_DAY, days)
     else Ok (ms, cdays t));
  let days := days + td_days in
  if days >? 2 ^ 16 - 1 then Err EOverflow else
  Ok {| cdays := days; cms := ms |}.

(* from_datetime on an aware datetime dt, abstracted to the integer attributes of
   delta = dt.astimezone(utc) - UNIX_EPOCH: delta.days = ud, delta.seconds = sod,
   delta.microseconds = us (CPython normalises 0 <= sod < 86400, 0 <= us < 10^6). *)
Definition cds_from_datetime (ud sod us : Z) : cds :=
  let unix_days := ud in
  let ms_of_day := sod * 1000 + us / 1000 in
  {| cdays := convert_unix_days_to_ccsds_days unix_days; cms := ms_of_day |}.

(* a history: stamp += td_1; stamp += td_2; ... (the object is mutated in place and returned) *)
Fixpoint cds_add_all (t : cds) (tds : list (Z * Z * Z)) : res cds :=
  match tds with
  | [] => Ok t
  | (d, s, u) :: r => do t' <- cds_add t d s u; cds_add_all t' r
  end.
