(* Extended operation histories on ONE live PusTc object (hardening round):
   alternate construction paths (from_sp_header, from_composite_fields, unpack, empty, defaults),
   every public mutation path (PusTc-level setters, header / packet-id / sequence-control /
   secondary-header attributes, replacement of the sub-objects), repeated packs and generic
   space-packet views, equality, re-decoding.  An operation that raises leaves a marker in the
   observation list and the history goes on with the state the code is left in.
   Definitions only; the model stays a statement-by-statement mirror of spacepackets/ecss/tc.py. *)
From Coq Require Import ZArith List Bool.
From SP Require Import Base.Result Base.Bytes Base.Crc16 Model.SpacePacket Model.PusTc.
Import ListNotations.
Open Scope Z_scope.

(* exception class as the harness compares it: TooShort / Unicode are ValueErrors *)
Definition canon_code (e : err) : Z := if is_value_error e then 1 else err_code e.

(* ---- alternate constructors ---- *)
(* PusTc.from_sp_header: starts from cls.empty(), overwrites packet type, secondary header flag and
   data length of the CALLER's header object, adopts it, new secondary header, adopts the data *)
Definition tc_from_sp_header (h : sph) (service subservice : Z) (app : bytes) (source_id ack : Z) : tc :=
  {| tc_sph := {| ver := ver h; ptype := PT_TC; shf := 1; apid := apid h; sflags := sflags h;
                  scount := scount h; dlen := tc_get_data_length (len app) PUS_C_SEC_HEADER_LEN |};
     tc_sec := {| tcs_service := service; tcs_subservice := subservice;
                  tcs_source_id := source_id; tcs_ack := ack |};
     tc_app := app; tc_crc := None |}.

(* PusTc.from_composite_fields: refuses a TM header, adopts everything as given (no length fix-up) *)
Definition tc_from_composite_fields (h : sph) (s : tcsec) (app : bytes) : res tc :=
  if ptype h =? PT_TM then Err EValue else
  Ok {| tc_sph := h; tc_sec := s; tc_app := app; tc_crc := None |}.

(* PusTc.empty() *)
Definition tc_empty : res tc := tc_new 0 0 0 [] 0 0 15.

(* ---- attribute assignment on the sub-objects (no validation, as in the code) ---- *)
(* header field index: 0 version, 1 packet type, 2 secondary header flag, 3 APID, 4 sequence flags,
   5 sequence count, 6 data length *)
Definition sph_set (h : sph) (f v : Z) : sph :=
  {| ver := if f =? 0 then v else ver h; ptype := if f =? 1 then v else ptype h;
     shf := if f =? 2 then v else shf h; apid := if f =? 3 then v else apid h;
     sflags := if f =? 4 then v else sflags h; scount := if f =? 5 then v else scount h;
     dlen := if f =? 6 then v else dlen h |}.
(* secondary header field index: 0 service, 1 subservice, 2 source ID, 3 ack flags *)
Definition tcsec_set (s : tcsec) (f v : Z) : tcsec :=
  {| tcs_service := if f =? 0 then v else tcs_service s;
     tcs_subservice := if f =? 1 then v else tcs_subservice s;
     tcs_source_id := if f =? 2 then v else tcs_source_id s;
     tcs_ack := if f =? 3 then v else tcs_ack s |}.

Definition tc_with_sph (t : tc) (h : sph) : tc :=
  {| tc_sph := h; tc_sec := tc_sec t; tc_app := tc_app t; tc_crc := tc_crc t |}.
Definition tc_with_sec (t : tc) (s : tcsec) : tc :=
  {| tc_sph := tc_sph t; tc_sec := s; tc_app := tc_app t; tc_crc := tc_crc t |}.

(* ---- __eq__ as Python evaluates it: `a.sp_header == b.sp_header and a.sec == b.sec and data`,
   each header comparison packs the left operand first; a pack that raises propagates ---- *)
Definition sph_eq_res (a b : sph) : res bool :=
  do x <- sph_pack a; do y <- sph_pack b; Ok (bytes_eqb x y).
Definition tcsec_eq_res (a b : tcsec) : res bool :=
  do x <- tcsec_pack a; do y <- tcsec_pack b; Ok (bytes_eqb x y).
Definition tc_eq_res (a b : tc) : res bool :=
  do e1 <- sph_eq_res (tc_sph a) (tc_sph b);
  if negb e1 then Ok false else
  do e2 <- tcsec_eq_res (tc_sec a) (tc_sec b);
  if negb e2 then Ok false else
  Ok (bytes_eqb (tc_app a) (tc_app b)).

(* PusTc.to_space_packet() followed by pack() of the returned SpacePacket: the octets and the
   object with its cached CRC refreshed (calc_crc is called first); nothing else of the object
   changes *)
Definition tc_view (t : tc) : res (bytes * tc) :=
  do t' <- tc_calc_crc t;
  do b <- tc_to_space_packet_pack t;
  Ok (b, t').

(* ---- operations and what each lets the caller observe ---- *)
Inductive tcx_op :=
| XPack | XPackNoRecalc | XCalcCrc | XView | XInspect | XEq | XRoundtrip | XSwitch
| XSetApp (d : bytes)            (* app_data = d (bytes or bytearray) *)
| XExtendApp (d : bytes)         (* the buffer held as app data is extended in place by the caller and assigned again *)
| XSetHdr (f v : Z)              (* any route to a primary-header attribute *)
| XSetSec (f v : Z)              (* pus_tc_sec_header.<attr> = v / source_id setter *)
| XNewHdr (l : list Z)           (* sp_header = SpacePacketHeader(ptype, apid, count, dlen, shf, flags, version) *)
| XNewSec (l : list Z).          (* pus_tc_sec_header = PusTcDataFieldHeader(service, subservice, source_id, ack) *)

Inductive tcx_out :=
| ONone | OBytes (b : bytes) | OState (t : tc) | OEq (x y : bool) | ORound (e : bool) (u : tc).

(* t0: a second object built from the same arguments by the same path, never touched (for ==) *)
Definition tcx_step (t0 t : tc) (o : tcx_op) : tc * res tcx_out :=
  match o with
  | XPack => match tc_pack t with Ok (b, t') => (t', Ok (OBytes b)) | Err e => (t, Err e) end
  | XPackNoRecalc => match tc_pack_norecalc t with Ok (b, t') => (t', Ok (OBytes b)) | Err e => (t, Err e) end
  | XCalcCrc => match tc_calc_crc t with Ok t' => (t', Ok ONone) | Err e => (t, Err e) end
  | XView => match tc_view t with Ok (b, t') => (t', Ok (OBytes b)) | Err e => (t, Err e) end
  | XInspect => (t, Ok (OState t))
  | XEq => (t, do x <- tc_eq_res t t0; do y <- tc_eq_res t0 t; Ok (OEq x y))
  | XRoundtrip =>
      match tc_pack t with
      | Err e => (t, Err e)
      | Ok (b, t') => (t', do u <- tc_unpack b; do e <- tc_eq_res u t'; Ok (ORound e u))
      end
  | XSwitch =>
      match tc_pack t with
      | Err e => (t, Err e)
      | Ok (b, t') => match tc_unpack b with Ok u => (u, Ok ONone) | Err e => (t', Err e) end
      end
  | XSetApp d => (tc_set_app_data t d, Ok ONone)
  | XExtendApp d => (tc_set_app_data t (tc_app t ++ d), Ok ONone)
  | XSetHdr f v => (tc_with_sph t (sph_set (tc_sph t) f v), Ok ONone)
  | XSetSec f v => (tc_with_sec t (tcsec_set (tc_sec t) f v), Ok ONone)
  | XNewHdr l =>
      match sph_new (nth 0 l 0) (nth 1 l 0) (nth 2 l 0) (nth 3 l 0) (nth 4 l 0) (nth 5 l 0) (nth 6 l 0) with
      | Ok h => (tc_with_sph t h, Ok ONone) | Err e => (t, Err e) end
  | XNewSec l =>
      (tc_with_sec t {| tcs_service := nth 0 l 0; tcs_subservice := nth 1 l 0;
                        tcs_source_id := nth 2 l 0; tcs_ack := nth 3 l 0 |}, Ok ONone)
  end.

Fixpoint tcx_run (t0 t : tc) (ops : list tcx_op) : tc * list (res tcx_out) :=
  match ops with
  | [] => (t, [])
  | o :: r => let '(t', out) := tcx_step t0 t o in
              let '(t'', outs) := tcx_run t0 t' r in (t'', out :: outs)
  end.

(* construction paths.  p = [path; service; subservice; apid; count; source_id; ack; _;
   ptype; shf; flags; version; dlen] *)
Definition tcx_make (p : list Z) (app : bytes) : res tc :=
  let g := fun i => nth i p 0 in
  match g 0%nat with
  | 0 => tc_new (g 1%nat) (g 2%nat) (g 3%nat) app (g 4%nat) (g 5%nat) (g 6%nat)
  | 1 => do h <- sph_new (g 8%nat) (g 3%nat) (g 4%nat) (g 12%nat) (g 9%nat) (g 10%nat) (g 11%nat);
         Ok (tc_from_sp_header h (g 1%nat) (g 2%nat) app (g 5%nat) (g 6%nat))
  | 2 => do h <- sph_new (g 8%nat) (g 3%nat) (g 4%nat) (g 12%nat) (g 9%nat) (g 10%nat) (g 11%nat);
         tc_from_composite_fields h {| tcs_service := g 1%nat; tcs_subservice := g 2%nat;
                                       tcs_source_id := g 5%nat; tcs_ack := g 6%nat |} app
  | 3 => do t <- tc_new (g 1%nat) (g 2%nat) (g 3%nat) app (g 4%nat) (g 5%nat) (g 6%nat);
         do r <- tc_pack t; tc_unpack (fst r)
  | 4 => tc_empty
  | 5 => tc_new (g 1%nat) (g 2%nat) 0 [] 0 0 15
  | _ => Err EOther
  end.
