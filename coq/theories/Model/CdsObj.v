(* One live CdsShortTimestamp OBJECT of spacepackets/ccsds/time/cds.py with its cached views:
   (_ccsds_days, _ms_of_day, _unix_seconds, _datetime).  Model/Cds.v treats a timestamp as the
   pair (days, ms) and the views as functions of it; that is what `_setup()` establishes, but
   the object also exists in states where the cache was never filled (constructor flag
   init_dt_unix_stamp=False, `empty(False)`: _unix_seconds = 0, no _datetime attribute) or is
   stale (an `__add__` refused with OverflowError has already updated the fields).  This file
   mirrors every path that creates or mutates the object, for operation histories.
   Definitions only. *)
From Coq Require Import ZArith List Bool.
From SP Require Import Base.Result Base.Bytes Model.Cds Model.CdsSoftFloat Model.CdsFloat.
Import ListNotations.
Open Scope Z_scope.

(* o_dt = None: the attribute _datetime does not exist (as_datetime() raises AttributeError) *)
Record cobj := { o_days : Z; o_ms : Z; o_unix : fl; o_dt : option Z }.

Definition cobj_pair (o : cobj) : cds := {| cdays := o_days o; cms := o_ms o |}.

(* _setup(): _calculate_unix_seconds(); _calculate_date_time() *)
Definition cobj_setup (o : cobj) : cobj :=
  let t := cobj_pair o in
  {| o_days := o_days o; o_ms := o_ms o; o_unix := cds_unix_seconds t; o_dt := Some (cds_datetime_us t) |}.

(* __init__(ccsds_days, ms_of_day, init_dt_unix_stamp) *)
Definition cobj_new (d ms : Z) (init : bool) : cobj :=
  let o := {| o_days := d; o_ms := ms; o_unix := fzero; o_dt := None |} in
  if init then cobj_setup o else o.
Definition cobj_empty (init : bool) : cobj := cobj_new 0 0 init.
Definition cobj_from_unix_days (unix_days ms : Z) : cobj :=
  cobj_new (convert_unix_days_to_ccsds_days unix_days) ms true.
Definition cobj_unpack (data : bytes) : res cobj :=
  do (d, ms) <- cds_unpack_from_raw data; Ok (cobj_new d ms true).

(* from_datetime(dt): empty(False), then the four attributes are written directly; the cached
   views are those of dt itself (dt, dt.timestamp()) *)
Definition cobj_from_datetime (ud sod us : Z) : cobj :=
  let t := cds_from_datetime ud sod us in
  {| o_days := cdays t; o_ms := cms t; o_unix := dt_timestamp ud sod us;
     o_dt := Some ((ud * 86400 + sod) * 1000000 + us) |}.

(* read_from_raw(data): unpack_from_raw raises before anything is assigned; otherwise both
   fields are assigned and _setup() runs unconditionally *)
Definition cobj_read_from_raw (o : cobj) (data : bytes) : res cobj :=
  do (d, ms) <- cds_unpack_from_raw data;
  Ok (cobj_setup {| o_days := d; o_ms := ms; o_unix := o_unix o; o_dt := o_dt o |}).

(* __add__(timedelta): updates the fields IN PLACE; an OverflowError is raised after the fields
   were already changed and before _setup(), so the refused object keeps the new fields with
   the old (stale) views. *)
Definition cobj_add (o : cobj) (td_days td_seconds td_microseconds : Z) : cobj * option err :=
  let ms := o_ms o + (td_microseconds / 1000 + td_seconds * 1000) in
  let carry := ms >=? MS_PER_DAY in
  let ms := if carry then ms - MS_PER_DAY else ms in
  let days := if carry then o_days o + 1 else o_days o in
  let stale d := {| o_days := d; o_ms := ms; o_unix := o_unix o; o_dt := o_dt o |} in
  if carry && (days >? 2 ^ 16 - 1) then (stale days, Some EOverflow) else
  let days := days + td_days in
  if days >? 2 ^ 16 - 1 then (stale days, Some EOverflow) else
  (cobj_setup (stale days), None).

Definition cobj_pack (o : cobj) : res bytes := cds_pack (cobj_pair o).

Inductive cobj_op :=
| ORead (data : bytes)          (* read_from_raw(data) *)
| OAdd (d s u : Z)              (* stamp = stamp + timedelta(d, s, u) *)
| OReadOwn                      (* read_from_raw(self.pack()) *)
| OPack.                        (* pack() *)

(* result of the call (octets for pack, nothing otherwise, or the exception) and the object
   afterwards *)
Definition cobj_step (o : cobj) (op : cobj_op) : res bytes * cobj :=
  match op with
  | ORead data => match cobj_read_from_raw o data with Ok o' => (Ok [], o') | Err e => (Err e, o) end
  | OAdd d s u => match cobj_add o d s u with (o', None) => (Ok [], o') | (o', Some e) => (Err e, o') end
  | OReadOwn => match cobj_pack o with
                | Err e => (Err e, o)
                | Ok b => match cobj_read_from_raw o b with Ok o' => (Ok [], o') | Err e => (Err e, o) end
                end
  | OPack => (cobj_pack o, o)
  end.
