(* Model of spacepackets/cfdp/pdu/metadata.py (MetadataParams, MetadataPdu).
   Definitions only.  A Python str file name is represented by its UTF-8 octets; options are
   CfdpTlv objects (`tlv`). *)
From Coq Require Import ZArith List Bool.
From SP Require Import Base.Result Base.Bytes Base.Crc16 Base.Utf8 Model.PduHeader Model.FileDirective
  Model.Lv Model.Tlv.
Import ListNotations.
Open Scope Z_scope.

(* ---- cfdp/defs.py : ChecksumType ---- *)
Definition CS_MODULAR : Z := 0.
Definition CS_CRC_32_PROXIMITY_1 : Z := 1.
Definition CS_CRC_32C : Z := 2.
Definition CS_CRC_32 : Z := 3.
Definition CS_NULL_CHECKSUM : Z := 15.
Definition checksum_types : list Z :=
  [CS_MODULAR; CS_CRC_32_PROXIMITY_1; CS_CRC_32C; CS_CRC_32; CS_NULL_CHECKSUM].
Definition is_checksum_type (x : Z) : bool := memz x checksum_types.
(* ChecksumType(x) *)
Definition checksum_type_of_int (x : Z) : res Z :=
  if is_checksum_type x then Ok x else Err EValue.

(* ---- MetadataParams ---- *)
Record MdParams := {
  mp_closure : Z;                   (* closure_requested: bool as 0/1 *)
  mp_cstype : Z;                    (* checksum_type *)
  mp_fsize : Z;                     (* file_size *)
  mp_src : option bytes;            (* source_file_name: None or the UTF-8 octets of the str *)
  mp_dst : option bytes }.

(* MetadataParams(False, ChecksumType.MODULAR, 0, "", "") *)
Definition mp_blank : MdParams :=
  {| mp_closure := 0; mp_cstype := CS_MODULAR; mp_fsize := 0; mp_src := Some []; mp_dst := Some [] |}.

(* the PDU object *)
Record MetadataPdu := {
  md_fdir : fdir;
  md_params : MdParams;             (* reference to the caller's parameter object *)
  md_src_lv : lv;                   (* _source_file_name_lv *)
  md_dst_lv : lv;                   (* _dest_file_name_lv *)
  md_options : option (list tlv) }. (* _options *)

Definition md_with_fdir (p : MetadataPdu) (f : fdir) : MetadataPdu :=
  {| md_fdir := f; md_params := md_params p; md_src_lv := md_src_lv p; md_dst_lv := md_dst_lv p;
     md_options := md_options p |}.

(* sum of option.packet_len *)
Fixpoint opts_len (l : list tlv) : Z :=
  match l with [] => 0 | t :: r => tlv_packet_len t + opts_len r end.

(* _calculate_directive_field_len *)
Definition md_calc_len (p : MetadataPdu) : res MetadataPdu :=
  let n := 5 + lv_packet_len (md_src_lv p) + lv_packet_len (md_dst_lv p) in
  let n := if hdr_large_file (fd_hdr (md_fdir p)) then n + 4 else n in
  let n := match md_options p with Some l => n + opts_len l | None => n end in
  let n := if cf_crc (h_conf (fd_hdr (md_fdir p))) =? CRC_WITH_CRC then n + 2 else n in
  do f <- fdir_set_param_len (md_fdir p) n;
  Ok (md_with_fdir p f).

(* CfdpLv(value=bytes()) for None, CfdpLv(value=name.encode("utf-8")) otherwise *)
Definition name_lv (o : option bytes) : res lv :=
  match o with None => lv_new [] | Some n => lv_new n end.

(* MetadataPdu.__init__(pdu_conf, params, options): returns the PDU, the caller's PduConfig
   afterwards (the constructor works on copy.copy(pdu_conf)) and the caller's params afterwards *)
Definition md_new (conf : PduConfig) (params : MdParams) (options : option (list tlv))
  : res (MetadataPdu * PduConfig * MdParams) :=
  do s <- name_lv (mp_src params);
  do d <- name_lv (mp_dst params);
  let conf' := conf_set_dir conf DIR_TOWARDS_RECEIVER in
  do f <- fdir_new conf' DT_METADATA 5;
  do p <- md_calc_len {| md_fdir := f; md_params := params; md_src_lv := s; md_dst_lv := d;
                         md_options := options |};
  Ok (p, conf, params).

(* options setter *)
Definition md_set_options (p : MetadataPdu) (o : option (list tlv)) : res MetadataPdu :=
  md_calc_len {| md_fdir := md_fdir p; md_params := md_params p; md_src_lv := md_src_lv p;
                 md_dst_lv := md_dst_lv p; md_options := o |}.
(* source_file_name / dest_file_name setters *)
Definition md_set_src (p : MetadataPdu) (o : option bytes) : res MetadataPdu :=
  do s <- name_lv o;
  md_calc_len {| md_fdir := md_fdir p; md_params := md_params p; md_src_lv := s;
                 md_dst_lv := md_dst_lv p; md_options := md_options p |}.
Definition md_set_dst (p : MetadataPdu) (o : option bytes) : res MetadataPdu :=
  do d <- name_lv o;
  md_calc_len {| md_fdir := md_fdir p; md_params := md_params p; md_src_lv := md_src_lv p;
                 md_dst_lv := d; md_options := md_options p |}.

(* source_file_name / dest_file_name getters: None for an empty LV, else value.decode() *)
Definition md_name_get (v : lv) : res (option bytes) :=
  if len v =? 0 then Ok None else do s <- utf8_decode v; Ok (Some s).

Definition md_packet_len (p : MetadataPdu) : Z := fdir_packet_len (md_fdir p).

(* for option in options: packet.extend(option.pack()) *)
Fixpoint opts_pack (l : list tlv) (acc : bytes) : res bytes :=
  match l with
  | [] => Ok acc
  | t :: r => do b <- tlv_pack t; opts_pack r (acc ++ b)
  end.

(* MetadataPdu.pack *)
Definition md_pack (p : MetadataPdu) : res bytes :=
  let q := md_params p in
  do _ <- fdir_verify_file_len (md_fdir p) (mp_fsize q);
  do b <- fdir_pack (md_fdir p);
  do b <- ba_append b (Z.lor (Z.shiftl (mp_closure q) 6) (mp_cstype q));
  do fss <- (if hdr_large_file (fd_hdr (md_fdir p)) then struct_pack 8 (mp_fsize q)
             else struct_pack 4 (mp_fsize q));
  let b := b ++ fss in
  let b := b ++ lv_pack (md_src_lv p) in
  let b := b ++ lv_pack (md_dst_lv p) in
  do b <- match md_options p with Some l => opts_pack l b | None => Ok b end;
  if cf_crc (h_conf (fd_hdr (md_fdir p))) =? CRC_WITH_CRC then
    do c <- struct_pack 2 (crc16 b); Ok (b ++ c)
  else Ok b.

(* MetadataPdu.__empty() *)
Definition md_empty : res MetadataPdu :=
  do r <- md_new conf_empty mp_blank None; Ok (fst (fst r)).

(* the `while True` loop of _parse_options; every iteration consumes at least two octets *)
Fixpoint md_opt_loop (fuel : nat) (raw : bytes) (idx : Z) (acc : list tlv) : res (list tlv) :=
  match fuel with
  | O => Err EFuel
  | S fuel' =>
    do t <- tlv_unpack (slice_from raw idx);
    let acc := acc ++ [t] in
    let idx := idx + tlv_packet_len t in
    if idx >? len raw then Err EValue
    else if idx =? len raw then Ok acc
    else md_opt_loop fuel' raw idx acc
  end.

(* MetadataPdu.unpack *)
Definition md_unpack (data : bytes) : res MetadataPdu :=
  do p <- md_empty;
  do f <- fdir_unpack data;
  let p := md_with_fdir p f in
  do _ <- hdr_verify_length_and_checksum (fd_hdr f) data;
  let current_idx := fdir_header_len f in
  let end_of_params :=
    if cf_crc (h_conf (fd_hdr f)) =? CRC_WITH_CRC then md_packet_len p - 2 else md_packet_len p in
  let min_expected_len := current_idx + 7 in
  let min_expected_len :=
    if cf_large (h_conf (fd_hdr f)) =? FILE_LARGE then min_expected_len + 4 else min_expected_len in
  if end_of_params <? min_expected_len then Err ETooShort else
  do b <- py_get data current_idx;
  let closure := if Z.land b 64 =? 0 then 0 else 1 in
  do cs <- checksum_type_of_int (Z.land b 15);
  let current_idx := current_idx + 1 in
  do r <- fdir_parse_fss f data current_idx;
  let '(current_idx, file_size) := r in
  let params := {| mp_closure := closure; mp_cstype := cs; mp_fsize := file_size;
                   mp_src := Some []; mp_dst := Some [] |} in
  do s <- lv_unpack (slice data current_idx end_of_params);
  let current_idx := current_idx + lv_packet_len s in
  do d <- lv_unpack (slice data current_idx end_of_params);
  let current_idx := current_idx + lv_packet_len d in
  do o <- (if current_idx <? end_of_params then
             let raw := slice_to data end_of_params in
             do l <- md_opt_loop (S (length raw)) raw current_idx []; Ok (Some l)
           else Ok (md_options p));
  Ok {| md_fdir := f; md_params := params; md_src_lv := s; md_dst_lv := d; md_options := o |}.

(* ---- equality ---- *)
(* list.__eq__ on lists of CfdpTlv (AbstractTlvBase.__eq__) *)
Fixpoint opts_eqb (a b : list tlv) : bool :=
  match a, b with
  | [], [] => true
  | x :: a', y :: b' => tlv_eqb x y && opts_eqb a' b'
  | _, _ => false
  end.
(* (self._options or []) == (other._options or []) *)
Definition options_eqb (a b : option (list tlv)) : bool :=
  opts_eqb (match a with Some x => x | None => [] end) (match b with Some y => y | None => [] end).
(* MetadataPdu.__eq__ *)
Definition md_eqb (a b : MetadataPdu) : bool :=
  fdir_eqb (md_fdir a) (md_fdir b) &&
  (mp_closure (md_params a) =? mp_closure (md_params b)) &&
  (mp_cstype (md_params a) =? mp_cstype (md_params b)) &&
  (mp_fsize (md_params a) =? mp_fsize (md_params b)) &&
  lv_eqb (md_src_lv a) (md_src_lv b) && lv_eqb (md_dst_lv a) (md_dst_lv b) &&
  options_eqb (md_options a) (md_options b).
