(* Model of spacepackets/cfdp/pdu/file_directive.py: DirectiveType,
   FileDirectivePduBase (constructor, pack, unpack, _verify_file_len, parse_fss_field).
   Definitions only.  Shared by the seven directive PDU models. *)
From Coq Require Import ZArith List Bool.
From SP Require Import Base.Result Base.Bytes Model.PduHeader.
Import ListNotations.
Open Scope Z_scope.

Definition DT_EOF : Z := 4.
Definition DT_FINISHED : Z := 5.
Definition DT_ACK : Z := 6.
Definition DT_METADATA : Z := 7.
Definition DT_NAK : Z := 8.
Definition DT_PROMPT : Z := 9.
Definition DT_KEEP_ALIVE : Z := 12.
Definition DT_NONE : Z := 10.
Definition FILE_DIRECTIVE_PDU_LEN : Z := 5.

(* DirectiveType(x) : ValueError on a non-member *)
Definition directive_type_of (x : Z) : res Z :=
  if (x =? 4) || (x =? 5) || (x =? 6) || (x =? 7) || (x =? 8) || (x =? 9) || (x =? 12) || (x =? 10)
  then Ok x else Err EValue.

Record fdir := { fd_hdr : PduHeader; fd_type : Z }.

(* FileDirectivePduBase.__init__(pdu_conf, directive_code, directive_param_field_len) *)
Definition fdir_new (conf : PduConfig) (code param_len : Z) : res fdir :=
  do h <- hdr_new PDU_FILE_DIRECTIVE SEGMETA_NOT_PRESENT (param_len + 1) conf;
  Ok {| fd_hdr := h; fd_type := code |}.

Definition fdir_param_len (f : fdir) : Z := h_dlen (fd_hdr f) - 1.
(* directive_param_field_len setter *)
Definition fdir_set_param_len (f : fdir) (n : Z) : res fdir :=
  do h <- hdr_set_dlen (fd_hdr f) (n + 1);
  Ok {| fd_hdr := h; fd_type := fd_type f |}.

(* AbstractFileDirectiveBase.header_len / packet_len *)
Definition fdir_header_len (f : fdir) : Z := hdr_header_len (fd_hdr f) + 1.
Definition fdir_packet_len (f : fdir) : Z := hdr_packet_len (fd_hdr f).

Definition fdir_pack (f : fdir) : res bytes :=
  do h <- hdr_pack (fd_hdr f);
  ba_append h (fd_type f).

(* FileDirectivePduBase.unpack: the directive octet is kept as a plain int (no enum check) *)
Definition fdir_unpack (raw : bytes) : res fdir :=
  do h <- hdr_unpack raw;
  let header_len := hdr_header_len h + 1 in
  if header_len >? len raw then Err ETooShort else
  do t <- py_get raw (header_len - 1);
  Ok {| fd_hdr := h; fd_type := t |}.

Definition fdir_eqb (a b : fdir) : bool :=
  hdr_eqb (fd_hdr a) (fd_hdr b) && (fd_type a =? fd_type b).

(* _verify_file_len (after repair 064a966: > 2^64 - 1 / > 2^32 - 1; before, 2^32 itself passed) *)
Definition fdir_verify_file_len (f : fdir) (file_size : Z) : res unit :=
  if hdr_large_file (fd_hdr f) && (file_size >? 2 ^ 64 - 1) then Err EValue
  else if negb (hdr_large_file (fd_hdr f)) && (file_size >? 2 ^ 32 - 1) then Err EValue
  else Ok tt.

(* parse_fss_field(raw_packet, current_idx) -> (current_idx', file_size) *)
Definition fdir_parse_fss (f : fdir) (raw : bytes) (idx : Z) : res (Z * Z) :=
  if hdr_large_file (fd_hdr f) then
    if idx + 8 >? len raw then Err ETooShort else
    do v <- struct_unpack 8 (slice raw idx (idx + 8)); Ok (idx + 8, v)
  else
    if idx + 4 >? len raw then Err ETooShort else
    do v <- struct_unpack 4 (slice raw idx (idx + 4)); Ok (idx + 4, v).

(* ---- AbstractFileDirectiveBase: the generic header accessors every directive PDU inherits ----
   file_flag / crc_flag / pdu_data_field_len setters write straight into the header (its
   PduConfig); no directive parameter length is recalculated by them (KeepAlivePdu and NakPdu
   override file_flag).  The same objects are reachable as pdu.pdu_header.<setter> and
   pdu.pdu_file_directive.pdu_conf.<attribute>. *)
Definition fdir_with_hdr (f : fdir) (h : PduHeader) : fdir := {| fd_hdr := h; fd_type := fd_type f |}.
Definition fdir_with_conf (f : fdir) (c : PduConfig) : fdir :=
  fdir_with_hdr f (hdr_with_conf (fd_hdr f) c).
Definition fdir_conf (f : fdir) : PduConfig := h_conf (fd_hdr f).
(* crc_flag setter *)
Definition fdir_set_crc_flag (f : fdir) (v : Z) : fdir := fdir_with_conf f (conf_set_crc (fdir_conf f) v).
(* file_flag setter (generic) *)
Definition fdir_set_file_flag (f : fdir) (v : Z) : fdir := fdir_with_conf f (conf_set_large (fdir_conf f) v).
(* pdu_data_field_len setter (ValueError above 65535, nothing assigned then) *)
Definition fdir_set_dlen (f : fdir) (v : Z) : res fdir :=
  do h <- hdr_set_dlen (fd_hdr f) v; Ok (fdir_with_hdr f h).
(* pdu_header.transmission_mode / direction / seg_ctrl / transaction_seq_num setters,
   pdu_header.set_entity_ids, plain attribute segment_metadata_flag, pdu_type setter *)
Definition fdir_set_mode (f : fdir) (v : Z) : fdir := fdir_with_conf f (conf_set_mode (fdir_conf f) v).
Definition fdir_set_dir (f : fdir) (v : Z) : fdir := fdir_with_conf f (conf_set_dir (fdir_conf f) v).
Definition fdir_set_segctrl (f : fdir) (v : Z) : fdir := fdir_with_conf f (conf_set_segctrl (fdir_conf f) v).
Definition fdir_set_seq (f : fdir) (u : ubf) : fdir := fdir_with_hdr f (hdr_set_seq (fd_hdr f) u).
Definition fdir_set_entity_ids (f : fdir) (s d : ubf) : res fdir :=
  do h <- hdr_set_entity_ids (fd_hdr f) s d; Ok (fdir_with_hdr f h).
Definition fdir_set_meta (f : fdir) (v : Z) : fdir := fdir_with_hdr f (hdr_set_meta (fd_hdr f) v).
Definition fdir_set_type (f : fdir) (v : Z) : fdir := fdir_with_hdr f (hdr_set_type (fd_hdr f) v).
