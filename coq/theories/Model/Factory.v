(* Model of spacepackets/cfdp/pdu/helper.py: PduFactory (from_raw, from_raw_to_holder, pdu_type,
   is_file_directive, pdu_directive_type) and PduHolder (pack, packet_len, pdu_type,
   is_file_directive, pdu_directive_type, the eight typed accessors).  Definitions only. *)
From Coq Require Import ZArith List Bool.
From SP Require Import Base.Result Base.Bytes Model.PduHeader Model.FileDirective
  Model.Eof Model.Ack Model.Prompt Model.KeepAlive Model.Finished Model.Metadata Model.Nak.
From SP Require Model.FileData.
Import ListNotations.
Open Scope Z_scope.

(* GenericPduPacket: an instance of one of the eight PDU classes *)
Inductive pdu :=
| PFileData (p : FileData.FileDataPdu)
| PEof (p : EofPdu)
| PFinished (p : FinishedPdu)
| PAck (p : AckPdu)
| PMetadata (p : MetadataPdu)
| PNak (p : NakPdu)
| PPrompt (p : PromptPdu)
| PKeepAlive (p : KeepAlivePdu).

(* index of the class: 0 file data, 1 EOF, 2 Finished, 3 ACK, 4 Metadata, 5 NAK, 6 Prompt, 7 Keep Alive *)
Definition pdu_kind (p : pdu) : Z :=
  match p with
  | PFileData _ => 0 | PEof _ => 1 | PFinished _ => 2 | PAck _ => 3
  | PMetadata _ => 4 | PNak _ => 5 | PPrompt _ => 6 | PKeepAlive _ => 7
  end.

(* <pdu>.pdu_type: FileDataPdu reports its header's type; AbstractFileDirectiveBase a constant *)
Definition pdu_pdu_type (p : pdu) : Z :=
  match p with
  | PFileData q => h_type (FileData.fd_hdr q)
  | _ => PDU_FILE_DIRECTIVE
  end.

(* <pdu>.directive_type: EofPdu and PromptPdu report the directive octet held by their
   FileDirectivePduBase, the others a class constant; FileDataPdu has no such attribute *)
Definition pdu_directive (p : pdu) : option Z :=
  match p with
  | PFileData _ => None
  | PEof q => Some (fd_type (eof_fd q))
  | PFinished _ => Some DT_FINISHED
  | PAck _ => Some DT_ACK
  | PMetadata _ => Some DT_METADATA
  | PNak _ => Some DT_NAK
  | PPrompt q => Some (fd_type (pr_fd q))
  | PKeepAlive _ => Some DT_KEEP_ALIVE
  end.

Definition pdu_pack (p : pdu) : res bytes :=
  match p with
  | PFileData q => FileData.fd_pack q
  | PEof q => eof_pack q
  | PFinished q => fin_pack q
  | PAck q => ack_pack q
  | PMetadata q => md_pack q
  | PNak q => nak_pack q
  | PPrompt q => prompt_pack q
  | PKeepAlive q => ka_pack q
  end.

Definition pdu_packet_len (p : pdu) : Z :=
  match p with
  | PFileData q => FileData.fd_packet_len q
  | PEof q => eof_packet_len q
  | PFinished q => fin_packet_len q
  | PAck q => ack_packet_len q
  | PMetadata q => md_packet_len q
  | PNak q => nak_packet_len q
  | PPrompt q => prompt_packet_len q
  | PKeepAlive q => ka_packet_len q
  end.

(* ================= PduFactory ================= *)

(* PduFactory.pdu_type(data) = PduType((data[0] >> 4) & 0x01) *)
Definition fac_pdu_type (data : bytes) : res Z :=
  if len data <? 1 then Err ETooShort else
  do d0 <- py_get data 0;
  Ok (Z.land (Z.shiftr d0 4) 1).

Definition fac_is_file_directive (data : bytes) : res bool :=
  do t <- fac_pdu_type data; Ok (t =? PDU_FILE_DIRECTIVE).

(* PduFactory.pdu_directive_type(data): None for file data, DirectiveType(data[header_len]) otherwise *)
Definition fac_pdu_directive_type (data : bytes) : res (option Z) :=
  do isd <- fac_is_file_directive data;
  if negb isd then Ok None else
  do header_len <- header_len_from_raw data;
  if len data <? header_len + 1 then Err ETooShort else
  do b <- py_get data header_len;
  do t <- directive_type_of b;
  Ok (Some t).

(* PduFactory.from_raw(data) *)
Definition fac_from_raw (data : bytes) : res (option pdu) :=
  do isd <- fac_is_file_directive data;
  if negb isd then do p <- FileData.fd_unpack data; Ok (Some (PFileData p)) else
  do directive <- fac_pdu_directive_type data;
  match directive with
  | None => Ok None
  | Some t =>
      if t =? DT_EOF then do p <- eof_unpack data; Ok (Some (PEof p))
      else if t =? DT_METADATA then do p <- md_unpack data; Ok (Some (PMetadata p))
      else if t =? DT_FINISHED then do p <- fin_unpack data; Ok (Some (PFinished p))
      else if t =? DT_ACK then do p <- ack_unpack data; Ok (Some (PAck p))
      else if t =? DT_NAK then do p <- nak_unpack data; Ok (Some (PNak p))
      else if t =? DT_KEEP_ALIVE then do p <- ka_unpack data; Ok (Some (PKeepAlive p))
      else if t =? DT_PROMPT then do p <- prompt_unpack data; Ok (Some (PPrompt p))
      else Ok None
  end.

(* ================= PduHolder ================= *)

(* a holder is its `pdu` attribute: Optional[GenericPduPacket];
   PduFactory.from_raw_to_holder(data) = PduHolder(PduFactory.from_raw(data)) *)
Definition holder := option pdu.
Definition fac_from_raw_to_holder (data : bytes) : res holder := fac_from_raw data.

Definition holder_pack (h : holder) : res bytes :=
  match h with None => Ok [] | Some p => pdu_pack p end.
Definition holder_packet_len (h : holder) : Z :=
  match h with None => 0 | Some p => pdu_packet_len p end.
(* pdu_type: `assert self.pdu is not None` *)
Definition holder_pdu_type (h : holder) : res Z :=
  match h with None => Err EAssert | Some p => Ok (pdu_pdu_type p) end.
Definition holder_is_file_directive (h : holder) : res bool :=
  do t <- holder_pdu_type h; Ok (t =? PDU_FILE_DIRECTIVE).
Definition holder_pdu_directive_type (h : holder) : res (option Z) :=
  do isd <- holder_is_file_directive h;
  if negb isd then Ok None else
  match h with
  | Some p => match pdu_directive p with Some t => Ok (Some t) | None => Err EAttribute end
  | None => Err EAssert
  end.

(* isinstance(self.pdu, AbstractFileDirectiveBase) *)
Definition is_directive_instance (p : pdu) : bool :=
  match p with PFileData _ => false | _ => true end.

(* _cast_to_concrete_file_directive(pdu_type, dir_type) *)
Definition holder_cast (h : holder) (dir_type : Z) : res pdu :=
  match h with
  | Some p =>
      if is_directive_instance p && (pdu_pdu_type p =? PDU_FILE_DIRECTIVE) then
        match pdu_directive p with
        | Some t => if t =? dir_type then Ok p else Err EType
        | None => Err EType
        end
      else Err EType
  | None => Err EType
  end.

(* to_file_data_pdu: isinstance(self.pdu, AbstractPduBase) holds for every PDU class *)
Definition holder_to_file_data (h : holder) : res pdu :=
  match h with
  | Some p => if pdu_pdu_type p =? PDU_FILE_DATA then Ok p else Err EType
  | None => Err EType
  end.

(* the eight typed accessors, by class index (as pdu_kind) *)
Definition holder_to (k : Z) (h : holder) : res pdu :=
  if k =? 0 then holder_to_file_data h
  else if k =? 1 then holder_cast h DT_EOF
  else if k =? 2 then holder_cast h DT_FINISHED
  else if k =? 3 then holder_cast h DT_ACK
  else if k =? 4 then holder_cast h DT_METADATA
  else if k =? 5 then holder_cast h DT_NAK
  else if k =? 6 then holder_cast h DT_PROMPT
  else if k =? 7 then holder_cast h DT_KEEP_ALIVE
  else Err EOther.

(* <Class>.unpack(data) for the class with index k, as a generic PDU *)
Definition unpack_as (k : Z) (data : bytes) : res pdu :=
  if k =? 0 then do p <- FileData.fd_unpack data; Ok (PFileData p)
  else if k =? 1 then do p <- eof_unpack data; Ok (PEof p)
  else if k =? 2 then do p <- fin_unpack data; Ok (PFinished p)
  else if k =? 3 then do p <- ack_unpack data; Ok (PAck p)
  else if k =? 4 then do p <- md_unpack data; Ok (PMetadata p)
  else if k =? 5 then do p <- nak_unpack data; Ok (PNak p)
  else if k =? 6 then do p <- prompt_unpack data; Ok (PPrompt p)
  else if k =? 7 then do p <- ka_unpack data; Ok (PKeepAlive p)
  else Err EOther.

(* == between two PDUs of the same class (different classes are never compared here) *)
Definition pdu_eqb (a b : pdu) : res bool :=
  match a, b with
  | PFileData x, PFileData y => Ok (FileData.fd_eqb x y)
  | PEof x, PEof y => eof_eqb x y
  | PFinished x, PFinished y => fin_eq x y
  | PAck x, PAck y => Ok (ack_eqb x y)
  | PMetadata x, PMetadata y => Ok (md_eqb x y)
  | PNak x, PNak y => Ok (nak_eqb x y)
  | PPrompt x, PPrompt y => Ok (prompt_eqb x y)
  | PKeepAlive x, PKeepAlive y => Ok (ka_eqb x y)
  | _, _ => Ok false
  end.
