(* Model of spacepackets/cfdp/lv.py (class CfdpLv).  Definitions only.
   A CfdpLv object is represented by its value octets: `value_len` is assigned only in
   __init__ (= len(value)), so it is not a separate component. *)
From Coq Require Import ZArith List Bool.
From SP Require Import Base.Result Base.Bytes.
Import ListNotations.
Open Scope Z_scope.

Definition lv := bytes.

(* CfdpLv.__init__ *)
Definition lv_new (value : bytes) : res lv :=
  if len value >? 255 then Err EValue else Ok value.

(* CfdpLv.from_str(string) / from_path(path): cls(string.encode()); the str is given by its
   UTF-8 octets *)
Definition lv_from_str (name : bytes) : res lv := lv_new name.

(* CfdpLv.packet_len *)
Definition lv_packet_len (v : lv) : Z := len v + 1.

(* CfdpLv.pack : packet.append(value_len); extend(value) when value_len > 0.
   (append cannot raise: value_len <= 255 for every constructed object.) *)
Definition lv_pack (v : lv) : bytes :=
  [len v] ++ (if len v >? 0 then v else []).

(* CfdpLv.unpack *)
Definition lv_unpack (raw : bytes) : res lv :=
  if len raw <? 1 then Err ETooShort else
  do detected_len <- py_get raw 0;
  if 1 + detected_len >? len raw then Err EValue else
  if detected_len =? 0 then lv_new []
  else lv_new (slice raw 1 (1 + detected_len)).

(* CfdpLv.__eq__ *)
Definition lv_eqb (a b : lv) : bool := bytes_eqb a b.
