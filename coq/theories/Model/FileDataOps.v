(* Operation histories on a FileDataPdu (spacepackets/cfdp/pdu/file_data.py): its two
   setters, the same objects assigned again (after an in-place change by the caller), edits
   of the sub-objects reachable through its public attributes (the PduHeader with its
   PduConfig and byte fields, the SegmentMetadata, the caller's FileDataParams which the PDU
   aliases), pack and the segment-length helper.  Definitions only. *)
From Coq Require Import ZArith List Bool.
From SP Require Import Base.Result Base.Bytes Model.PduHeader Model.PduHeaderOps Model.FileData.
Import ListNotations.
Open Scope Z_scope.

Inductive fd_hop :=
| FSetData (d : bytes)            (* p.file_data = d                       (bytes or bytearray) *)
| FSetMeta (m : option SegMeta)   (* p.segment_metadata = m *)
| FExtendAssign (x : bytes)       (* d = the bytearray held by p (and by the caller); d.extend(x); p.file_data = d *)
| FReassignData                   (* p.file_data = p.file_data *)
| FReassignMeta                   (* p.segment_metadata = p.segment_metadata *)
| FMetaDataInplace (md : bytes)   (* p.segment_metadata.metadata = md      (no recalculation) *)
| FMetaStateInplace (st : Z)      (* p.segment_metadata.record_cont_state = st *)
| FParamsOffset (v : Z)           (* params.offset = v          (the caller's object, aliased by p) *)
| FParamsData (d : bytes)         (* params.file_data = d       (no recalculation) *)
| FHdr (o : hdr_op)               (* the operation o on p.pdu_header *)
| FPack                           (* p.pack() *)
| FMaxSeg (n : Z).                (* p.get_max_file_seg_len_for_max_packet_len(n) *)

Definition fp_with_data (q : FdParams) (d : bytes) : FdParams :=
  {| fp_data := d; fp_offset := fp_offset q; fp_meta := fp_meta q |}.
Definition fp_with_meta (q : FdParams) (m : option SegMeta) : FdParams :=
  {| fp_data := fp_data q; fp_offset := fp_offset q; fp_meta := m |}.
Definition fp_with_offset (q : FdParams) (v : Z) : FdParams :=
  {| fp_data := fp_data q; fp_offset := v; fp_meta := fp_meta q |}.

(* the two setters: the parameter object (and the header's metadata flag) is written, the data-field
   length recalculated; when the header's length setter refuses the new length (ValueError, > 65535)
   the assignments are taken back before the error is passed on: the PDU is what it was before the
   call.  (fd_set_data / fd_set_meta of Model/FileData.v are the successful case.) *)
Definition fd_try (p : FileDataPdu) (r : res FileDataPdu) : FileDataPdu * res (list Z) :=
  match r with Ok p' => (p', Ok []) | Err e => (p, Err e) end.
Definition fd_set_data_st (p : FileDataPdu) (d : bytes) : FileDataPdu * res (list Z) :=
  fd_try p (fd_set_data p d).
Definition fd_set_meta_st (p : FileDataPdu) (m : option SegMeta) : FileDataPdu * res (list Z) :=
  fd_try p (fd_set_meta p m).

(* one operation: the PDU afterwards, and what the call returned or raised *)
Definition fd_step (p : FileDataPdu) (o : fd_hop) : FileDataPdu * res (list Z) :=
  let q := fd_params p in
  match o with
  | FSetData d => fd_set_data_st p d
  | FSetMeta m => fd_set_meta_st p m
  | FExtendAssign x => fd_set_data_st (fd_with_params p (fp_with_data q (fp_data q ++ x))) (fp_data q ++ x)
  | FReassignData => fd_set_data_st p (fp_data q)
  | FReassignMeta => fd_set_meta_st p (fp_meta q)
  | FMetaDataInplace md =>
      match fp_meta q with
      | Some m => (fd_with_params p (fp_with_meta q (Some {| sm_state := sm_state m; sm_data := md |})), Ok [])
      | None => (p, Err EAttribute)
      end
  | FMetaStateInplace st =>
      match fp_meta q with
      | Some m => (fd_with_params p (fp_with_meta q (Some {| sm_state := st; sm_data := sm_data m |})), Ok [])
      | None => (p, Err EAttribute)
      end
  | FParamsOffset v => (fd_with_params p (fp_with_offset q v), Ok [])
  | FParamsData d => (fd_with_params p (fp_with_data q d), Ok [])
  | FHdr ho =>
      match hdr_step (fd_hdr p) ho with
      | Ok (h', out) => (fd_with_hdr p h', Ok out)
      | Err e => (p, Err e)
      end
  | FPack => (p, fd_pack p)
  | FMaxSeg n => (p, do r <- get_max_file_seg_len (h_conf (fd_hdr p)) n (fp_meta q); Ok [r])
  end.

(* The PDU and the PduConfig object of the caller it was built from.  FileDataPdu.__init__ works on
   copy.copy(pdu_conf): a shallow copy, so the three UnsignedByteField objects are shared between
   the caller's configuration and the PDU's until one side gets another object assigned; a value
   assigned to a shared field through the PDU is seen through the caller's configuration too. *)
Record fworld := { fw_pdu : FileDataPdu; fw_caller : PduConfig;
                   fw_sh_src : bool; fw_sh_dst : bool; fw_sh_seq : bool }.

Definition fw_init (p : FileDataPdu) (caller : PduConfig) : fworld :=
  {| fw_pdu := p; fw_caller := caller; fw_sh_src := true; fw_sh_dst := true; fw_sh_seq := true |}.

(* operations that put another byte-field object into the PDU's configuration *)
Definition hdr_op_detaches (o : hdr_op) (k : Z) : bool :=
  match o with
  | HSetIds _ _ _ _ => (k =? 0) || (k =? 1)
  | HSetSeq _ _ => k =? 2
  | HConfField w _ _ => k =? w
  | HReplaceConf _ => true
  | _ => false
  end.

Definition fw_step (w : fworld) (o : fd_hop) : fworld * res (list Z) :=
  let '(p', out) := fd_step (fw_pdu w) o in
  let ok := match out with Ok _ => true | Err _ => false end in
  let det k := match o with FHdr ho => ok && hdr_op_detaches ho k | _ => false end in
  let c' := h_conf (fd_hdr p') in
  let s0 := fw_sh_src w && negb (det 0) in
  let s1 := fw_sh_dst w && negb (det 1) in
  let s2 := fw_sh_seq w && negb (det 2) in
  let c0 := fw_caller w in
  let c1 := if s0 then conf_set_src c0 (cf_src c') else c0 in
  let c2 := if s1 then conf_set_dst c1 (cf_dst c') else c1 in
  let c3 := if s2 then conf_set_seq c2 (cf_seq c') else c2 in
  ({| fw_pdu := p'; fw_caller := c3; fw_sh_src := s0; fw_sh_dst := s1; fw_sh_seq := s2 |}, out).
