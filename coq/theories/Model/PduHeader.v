(* Model of spacepackets/cfdp/pdu/header.py (AbstractPduBase, PduHeader),
   spacepackets/cfdp/conf.py (PduConfig) and the pieces of spacepackets/util.py the
   header uses (UnsignedByteField constructor / as_bytes, ByteFieldU8..U64.from_*_bytes,
   ByteFieldGenerator.from_bytes).  Self-contained: the full model of util.py lives in
   Model/Util.v (another slice).  Definitions only. *)
From Coq Require Import ZArith List Bool.
From SP Require Import Base.Result Base.Bytes Base.Crc16.
Import ListNotations.
Open Scope Z_scope.

(* ---- constants of cfdp/defs.py used here (tied by harness ENUMS) ---- *)
Definition CFDP_VERSION_2 : Z := 1.
Definition FIXED_LENGTH : Z := 4.          (* AbstractPduBase.FIXED_LENGTH *)
Definition VERSION_BITS : Z := 32.         (* AbstractPduBase.VERSION_BITS *)
Definition PDU_FILE_DIRECTIVE : Z := 0.
Definition PDU_FILE_DATA : Z := 1.
Definition DIR_TOWARDS_RECEIVER : Z := 0.
Definition DIR_TOWARDS_SENDER : Z := 1.
Definition TM_ACKNOWLEDGED : Z := 0.
Definition TM_UNACKNOWLEDGED : Z := 1.
Definition CRC_NO_CRC : Z := 0.
Definition CRC_WITH_CRC : Z := 1.
Definition FILE_NORMAL : Z := 0.
Definition FILE_LARGE : Z := 1.
Definition SEGMETA_NOT_PRESENT : Z := 0.
Definition SEGMETA_PRESENT : Z := 1.
Definition SEGCTRL_NO_BOUNDARIES : Z := 0.
Definition SEGCTRL_BOUNDARIES : Z := 1.
Definition LEN_ZERO : Z := 0.
Definition LEN_ONE : Z := 1.
Definition LEN_TWO : Z := 2.
Definition LEN_FOUR : Z := 4.
Definition LEN_EIGHT : Z := 8.

(* ================= util.py : UnsignedByteField (what the header needs) ================= *)

(* value + byte length; as_bytes is a function of both for every object the
   constructor returns (it is recomputed whenever the value is set). *)
Record ubf := { ubf_val : Z; ubf_len : Z }.

(* UnsignedByteField.verify_byte_len : byte_len in [0, 1, 2, 4, 8] *)
Definition byte_len_allowed (l : Z) : bool :=
  (l =? 0) || (l =? 1) || (l =? 2) || (l =? 4) || (l =? 8).

(* IntByteConversion.to_unsigned *)
Definition to_unsigned (byte_num val : Z) : res bytes :=
  if negb (byte_len_allowed byte_num) then Err EValue else
  if byte_num =? 0 then Ok [] else
  if val >? 2 ^ (byte_num * 8) - 1 then Err EValue else
  struct_pack (Z.to_nat byte_num) val.

(* UnsignedByteField.__init__(val, byte_len): byte_len setter, value setter
   (_verify_int_value, to_unsigned), to_unsigned again. *)
Definition ubf_new (val byte_len : Z) : res ubf :=
  if negb (byte_len_allowed byte_len) then Err EValue else
  if (val >? 2 ^ (byte_len * 8) - 1) || (val <? 0) then Err EValue else
  do _ <- to_unsigned byte_len val;
  do _ <- to_unsigned byte_len val;
  Ok {| ubf_val := val; ubf_len := byte_len |}.

Definition ubf_as_bytes (u : ubf) : bytes := be_encode (Z.to_nat (ubf_len u)) (ubf_val u).

(* ByteFieldEmpty() *)
Definition ubf_empty : ubf := {| ubf_val := 0; ubf_len := 0 |}.

(* UnsignedByteField.__eq__ on two byte fields *)
Definition ubf_eqb (a b : ubf) : bool := (ubf_val a =? ubf_val b) && (ubf_len a =? ubf_len b).

(* ByteFieldU8.from_u8_bytes / U16 / U32 / U64 *)
Definition u8_from_bytes (stream : bytes) : res ubf :=
  if len stream <? 1 then Err EValue else
  do b <- py_get stream 0; ubf_new b 1.
Definition uN_from_bytes (n : Z) (stream : bytes) : res ubf :=
  if len stream <? n then Err EValue else
  do v <- struct_unpack (Z.to_nat n) (slice stream 0 n); ubf_new v n.

(* ByteFieldGenerator.from_bytes(byte_len, stream) *)
Definition bfg_from_bytes (byte_len : Z) (stream : bytes) : res ubf :=
  if byte_len =? 1 then u8_from_bytes stream
  else if byte_len =? 2 then uN_from_bytes 2 stream
  else if byte_len =? 4 then uN_from_bytes 4 stream
  else if byte_len =? 8 then uN_from_bytes 8 stream
  else Err EValue.

(* ================= conf.py : PduConfig ================= *)

Record PduConfig := {
  cf_src : ubf; cf_dst : ubf; cf_seq : ubf;
  cf_mode : Z; cf_large : Z; cf_crc : Z; cf_dir : Z; cf_segctrl : Z }.

(* PduConfig.empty() *)
Definition conf_empty : PduConfig :=
  {| cf_src := ubf_empty; cf_dst := ubf_empty; cf_seq := ubf_empty;
     cf_mode := TM_ACKNOWLEDGED; cf_large := FILE_NORMAL; cf_crc := CRC_NO_CRC;
     cf_dir := DIR_TOWARDS_RECEIVER; cf_segctrl := SEGCTRL_NO_BOUNDARIES |}.

(* PduConfig.header_len() *)
Definition conf_header_len (c : PduConfig) : Z :=
  4 + ubf_len (cf_src c) + ubf_len (cf_dst c) + ubf_len (cf_seq c).

Definition conf_set_src (c : PduConfig) (u : ubf) : PduConfig :=
  {| cf_src := u; cf_dst := cf_dst c; cf_seq := cf_seq c; cf_mode := cf_mode c;
     cf_large := cf_large c; cf_crc := cf_crc c; cf_dir := cf_dir c; cf_segctrl := cf_segctrl c |}.
Definition conf_set_dst (c : PduConfig) (u : ubf) : PduConfig :=
  {| cf_src := cf_src c; cf_dst := u; cf_seq := cf_seq c; cf_mode := cf_mode c;
     cf_large := cf_large c; cf_crc := cf_crc c; cf_dir := cf_dir c; cf_segctrl := cf_segctrl c |}.
Definition conf_set_seq (c : PduConfig) (u : ubf) : PduConfig :=
  {| cf_src := cf_src c; cf_dst := cf_dst c; cf_seq := u; cf_mode := cf_mode c;
     cf_large := cf_large c; cf_crc := cf_crc c; cf_dir := cf_dir c; cf_segctrl := cf_segctrl c |}.
Definition conf_set_mode (c : PduConfig) (v : Z) : PduConfig :=
  {| cf_src := cf_src c; cf_dst := cf_dst c; cf_seq := cf_seq c; cf_mode := v;
     cf_large := cf_large c; cf_crc := cf_crc c; cf_dir := cf_dir c; cf_segctrl := cf_segctrl c |}.
Definition conf_set_large (c : PduConfig) (v : Z) : PduConfig :=
  {| cf_src := cf_src c; cf_dst := cf_dst c; cf_seq := cf_seq c; cf_mode := cf_mode c;
     cf_large := v; cf_crc := cf_crc c; cf_dir := cf_dir c; cf_segctrl := cf_segctrl c |}.
Definition conf_set_crc (c : PduConfig) (v : Z) : PduConfig :=
  {| cf_src := cf_src c; cf_dst := cf_dst c; cf_seq := cf_seq c; cf_mode := cf_mode c;
     cf_large := cf_large c; cf_crc := v; cf_dir := cf_dir c; cf_segctrl := cf_segctrl c |}.
Definition conf_set_dir (c : PduConfig) (v : Z) : PduConfig :=
  {| cf_src := cf_src c; cf_dst := cf_dst c; cf_seq := cf_seq c; cf_mode := cf_mode c;
     cf_large := cf_large c; cf_crc := cf_crc c; cf_dir := v; cf_segctrl := cf_segctrl c |}.
Definition conf_set_segctrl (c : PduConfig) (v : Z) : PduConfig :=
  {| cf_src := cf_src c; cf_dst := cf_dst c; cf_seq := cf_seq c; cf_mode := cf_mode c;
     cf_large := cf_large c; cf_crc := cf_crc c; cf_dir := cf_dir c; cf_segctrl := v |}.

(* ================= header.py : PduHeader ================= *)

(* The header object holds a reference to the PduConfig it was given (every flag,
   ID and sequence-number property reads / writes that object), its own pdu type,
   segment-metadata flag and data-field length. *)
Record PduHeader := { h_type : Z; h_meta : Z; h_dlen : Z; h_conf : PduConfig }.

Definition hdr_with_conf (h : PduHeader) (c : PduConfig) : PduHeader :=
  {| h_type := h_type h; h_meta := h_meta h; h_dlen := h_dlen h; h_conf := c |}.
Definition hdr_set_type (h : PduHeader) (v : Z) : PduHeader :=
  {| h_type := v; h_meta := h_meta h; h_dlen := h_dlen h; h_conf := h_conf h |}.
Definition hdr_set_meta (h : PduHeader) (v : Z) : PduHeader :=
  {| h_type := h_type h; h_meta := v; h_dlen := h_dlen h; h_conf := h_conf h |}.

(* pdu_data_field_len setter: only the upper bound is checked *)
Definition hdr_set_dlen (h : PduHeader) (new_len : Z) : res PduHeader :=
  if new_len >? 2 ^ 16 - 1 then Err EValue else
  Ok {| h_type := h_type h; h_meta := h_meta h; h_dlen := new_len; h_conf := h_conf h |}.

(* set_entity_ids *)
Definition hdr_set_entity_ids (h : PduHeader) (src dst : ubf) : res PduHeader :=
  if negb (ubf_len src =? ubf_len dst) then Err EValue else
  Ok (hdr_with_conf h (conf_set_dst (conf_set_src (h_conf h) src) dst)).

Definition hdr_set_seq (h : PduHeader) (u : ubf) : PduHeader :=
  hdr_with_conf h (conf_set_seq (h_conf h) u).

(* PduHeader.__init__(pdu_type, segment_metadata_flag, pdu_data_field_len, pdu_conf) *)
Definition hdr_new (pdu_type seg_meta dlen : Z) (conf : PduConfig) : res PduHeader :=
  let h0 := {| h_type := pdu_type; h_meta := 0; h_dlen := 0; h_conf := conf |} in
  do h1 <- hdr_set_dlen h0 dlen;
  do h2 <- hdr_set_entity_ids h1 (cf_src conf) (cf_dst conf);
  let h3 := hdr_set_seq h2 (cf_seq conf) in
  Ok (hdr_set_meta h3 seg_meta).

Definition hdr_header_len (h : PduHeader) : Z :=
  FIXED_LENGTH + 2 * ubf_len (cf_src (h_conf h)) + ubf_len (cf_seq (h_conf h)).

(* AbstractPduBase.packet_len *)
Definition hdr_packet_len (h : PduHeader) : Z := h_dlen h + hdr_header_len h.

(* large_file_flag_set *)
Definition hdr_large_file (h : PduHeader) : bool := cf_large (h_conf h) =? FILE_LARGE.

(* AbstractPduBase.__eq__ *)
Definition hdr_eqb (a b : PduHeader) : bool :=
  (h_type a =? h_type b) && (cf_large (h_conf a) =? cf_large (h_conf b)) &&
  (cf_crc (h_conf a) =? cf_crc (h_conf b)) &&
  ubf_eqb (cf_dst (h_conf a)) (cf_dst (h_conf b)) &&
  ubf_eqb (cf_src (h_conf a)) (cf_src (h_conf b)) &&
  (hdr_packet_len a =? hdr_packet_len b).

(* PduHeader.pack: four bytearray.append (ValueError outside 0..255), three extend *)
Definition hdr_pack (h : PduHeader) : res bytes :=
  let c := h_conf h in
  do b0 <- ba_append []
    (Z.lor (Z.lor (Z.lor (Z.lor (Z.lor (Z.shiftl CFDP_VERSION_2 5) (Z.shiftl (h_type h) 4))
                                (Z.shiftl (cf_dir c) 3))
                         (Z.shiftl (cf_mode c) 2))
                  (Z.shiftl (cf_crc c) 1))
           (cf_large c));
  do b1 <- ba_append b0 (Z.land (Z.shiftr (h_dlen h) 8) 255);
  do b2 <- ba_append b1 (Z.land (h_dlen h) 255);
  do b3 <- ba_append b2
    (Z.lor (Z.lor (Z.lor (Z.shiftl (cf_segctrl c) 7) (Z.shiftl (ubf_len (cf_src c) - 1) 4))
                  (Z.shiftl (h_meta h) 3))
           (ubf_len (cf_seq c) - 1));
  Ok (b3 ++ ubf_as_bytes (cf_src c) ++ ubf_as_bytes (cf_seq c) ++ ubf_as_bytes (cf_dst c)).

(* PduHeader.__empty() *)
Definition hdr_empty : PduHeader :=
  {| h_type := PDU_FILE_DIRECTIVE; h_meta := SEGMETA_NOT_PRESENT; h_dlen := 0; h_conf := conf_empty |}.

(* check_len_in_bytes *)
Definition check_len_in_bytes (detected_len : Z) : res Z :=
  if (detected_len =? 1) || (detected_len =? 2) || (detected_len =? 4) || (detected_len =? 8)
  then Ok detected_len else Err EValue.

(* PduHeader.unpack *)
Definition hdr_unpack (data : bytes) : res PduHeader :=
  if len data <? FIXED_LENGTH then Err ETooShort else
  let h := hdr_empty in
  do d0 <- py_get data 0;
  let version_raw := Z.land (Z.shiftr d0 5) 7 in
  if negb (version_raw =? CFDP_VERSION_2) then Err EVersion else
  let h := hdr_set_type h (Z.shiftr (Z.land d0 16) 4) in
  let h := hdr_with_conf h (conf_set_dir (h_conf h) (Z.shiftr (Z.land d0 8) 3)) in
  let h := hdr_with_conf h (conf_set_mode (h_conf h) (Z.shiftr (Z.land d0 4) 2)) in
  let h := hdr_with_conf h (conf_set_crc (h_conf h) (Z.shiftr (Z.land d0 2) 1)) in
  let h := hdr_with_conf h (conf_set_large (h_conf h) (Z.land d0 1)) in
  do d1 <- py_get data 1;
  do d2 <- py_get data 2;
  do h <- hdr_set_dlen h (Z.lor (Z.shiftl d1 8) d2);
  do d3 <- py_get data 3;
  let h := hdr_with_conf h (conf_set_segctrl (h_conf h) (Z.shiftr (Z.land d3 128) 7)) in
  do expected_len_entity_ids <- check_len_in_bytes (Z.land (Z.shiftr d3 4) 7 + 1);
  let h := hdr_set_meta h (Z.land (Z.shiftr d3 3) 1) in
  do expected_len_seq_num <- check_len_in_bytes (Z.land d3 7 + 1);
  let expected_remaining_len := 2 * expected_len_entity_ids + expected_len_seq_num in
  if expected_remaining_len + FIXED_LENGTH >? len data then Err ETooShort else
  let current_idx := 4 in
  do source_entity_id <- bfg_from_bytes expected_len_entity_ids
       (slice data current_idx (current_idx + expected_len_entity_ids));
  let current_idx := current_idx + expected_len_entity_ids in
  do seq <- bfg_from_bytes expected_len_seq_num
       (slice data current_idx (current_idx + expected_len_seq_num));
  let h := hdr_set_seq h seq in
  let current_idx := current_idx + expected_len_seq_num in
  do dest_entity_id <- bfg_from_bytes expected_len_entity_ids
       (slice data current_idx (current_idx + expected_len_entity_ids));
  hdr_set_entity_ids h source_entity_id dest_entity_id.

(* AbstractPduBase.header_len_from_raw *)
Definition header_len_from_raw (data : bytes) : res Z :=
  if len data <? FIXED_LENGTH then Err ETooShort else
  do d3 <- py_get data 3;
  let entity_id_len := Z.land (Z.shiftr d3 4) 7 + 1 in
  let seq_num_len := Z.land d3 7 + 1 in
  Ok (FIXED_LENGTH + 2 * entity_id_len + seq_num_len).

(* PduHeader.verify_length_and_checksum *)
Definition hdr_verify_length_and_checksum (h : PduHeader) (data : bytes) : res Z :=
  let pl := hdr_packet_len h in
  if len data <? pl then Err ETooShort else
  if cf_crc (h_conf h) =? CRC_WITH_CRC then
    if negb (crc16 (slice_to data pl) =? 0) then
      do _ <- struct_unpack 2 (slice data (pl - 2) pl); Err ECrc
    else Ok pl
  else Ok pl.
