(* Model of spacepackets/cfdp/pdu/prompt.py (ResponseRequired, PromptPdu).  Definitions only. *)
From Coq Require Import ZArith List Bool.
From SP Require Import Base.Result Base.Bytes Base.Crc16 Model.PduHeader Model.FileDirective.
Import ListNotations.
Open Scope Z_scope.

Definition RR_NAK : Z := 0.
Definition RR_KEEP_ALIVE : Z := 1.
(* ResponseRequired(x) *)
Definition response_required_of (x : Z) : res Z :=
  if (x =? RR_NAK) || (x =? RR_KEEP_ALIVE) then Ok x else Err EValue.

Record PromptPdu := { pr_fd : fdir; pr_rr : Z }.

(* PromptPdu.__init__(pdu_conf, response_required) *)
Definition prompt_new (conf : PduConfig) (rr : Z) : res (PromptPdu * PduConfig) :=
  let conf' := conf_set_dir conf DIR_TOWARDS_RECEIVER in
  do f <- fdir_new conf' DT_PROMPT 1;
  do f <- (if cf_crc conf' =? CRC_WITH_CRC then fdir_set_param_len f 3 else Ok f);
  Ok ({| pr_fd := f; pr_rr := rr |}, conf).

Definition prompt_packet_len (p : PromptPdu) : Z := fdir_packet_len (pr_fd p).

(* PromptPdu.pack *)
Definition prompt_pack (p : PromptPdu) : res bytes :=
  do b <- fdir_pack (pr_fd p);
  do b <- ba_append b (Z.shiftl (pr_rr p) 7);
  if cf_crc (h_conf (fd_hdr (pr_fd p))) =? CRC_WITH_CRC then
    do c <- struct_pack 2 (crc16 b); Ok (b ++ c)
  else Ok b.

(* PromptPdu.__empty() *)
Definition prompt_empty : res PromptPdu :=
  do r <- prompt_new conf_empty RR_NAK; Ok (fst r).

(* PromptPdu.unpack *)
Definition prompt_unpack (data : bytes) : res PromptPdu :=
  do p <- prompt_empty;
  do f <- fdir_unpack data;
  do _ <- hdr_verify_length_and_checksum (fd_hdr f) data;
  (* data = data[:end_of_params]: the octets of this PDU in front of its CRC trailer *)
  let end_of_params :=
    if cf_crc (h_conf (fd_hdr f)) =? CRC_WITH_CRC then fdir_packet_len f - 2 else fdir_packet_len f in
  let data := slice_to data end_of_params in
  let current_idx := fdir_header_len f in
  if current_idx >=? len data then Err ETooShort else
  do b <- py_get data current_idx;
  do rr <- response_required_of (Z.shiftr (Z.land b 128) 7);
  Ok {| pr_fd := f; pr_rr := rr |}.

Definition prompt_eqb (a b : PromptPdu) : bool :=
  fdir_eqb (pr_fd a) (pr_fd b) && (pr_rr a =? pr_rr b).
