(* Model of spacepackets/cfdp/pdu/nak.py (NakPdu,
   get_max_seg_reqs_for_max_packet_size_and_pdu_cfg).  Definitions only. *)
From Coq Require Import ZArith List Bool.
From SP Require Import Base.Result Base.Bytes Base.Crc16 Model.PduHeader Model.FileDirective.
Import ListNotations.
Open Scope Z_scope.

(* the PDU object: the file-directive base (which owns the header and, through it, a
   PduConfig object), the list of (start, end) segment requests and the two scope values *)
Record NakPdu := { nk_fd : fdir; nk_segs : list (Z * Z); nk_start : Z; nk_end : Z }.

Definition nk_hdr (p : NakPdu) : PduHeader := fd_hdr (nk_fd p).
Definition nk_conf (p : NakPdu) : PduConfig := h_conf (nk_hdr p).
Definition nak_with_fd (p : NakPdu) (f : fdir) : NakPdu :=
  {| nk_fd := f; nk_segs := nk_segs p; nk_start := nk_start p; nk_end := nk_end p |}.
Definition nak_with_segs (p : NakPdu) (l : list (Z * Z)) : NakPdu :=
  {| nk_fd := nk_fd p; nk_segs := l; nk_start := nk_start p; nk_end := nk_end p |}.
Definition nak_set_start (p : NakPdu) (v : Z) : NakPdu :=
  {| nk_fd := nk_fd p; nk_segs := nk_segs p; nk_start := v; nk_end := nk_end p |}.
Definition nak_set_end (p : NakPdu) (v : Z) : NakPdu :=
  {| nk_fd := nk_fd p; nk_segs := nk_segs p; nk_start := nk_start p; nk_end := v |}.

Definition nseg (p : NakPdu) : Z := Z.of_nat (length (nk_segs p)).

(* _calculate_directive_field_len *)
Definition nak_calc_len (p : NakPdu) : res NakPdu :=
  let c := nk_conf p in
  do l <- (if cf_large c =? FILE_NORMAL then Ok (8 + nseg p * 8)
           else if cf_large c =? FILE_LARGE then Ok (16 + nseg p * 16)
           else Err EValue);
  let l := if cf_crc c =? CRC_WITH_CRC then l + 2 else l in
  do f <- fdir_set_param_len (nk_fd p) l;
  Ok (nak_with_fd p f).

(* NakPdu.__init__(pdu_conf, start_of_scope, end_of_scope, segment_requests): returns the PDU
   and the caller's PduConfig afterwards.  The constructor works on copy.copy(pdu_conf): the
   direction is written into the copy, the caller's object is untouched. *)
Definition nak_new (conf : PduConfig) (start_of_scope end_of_scope : Z) (segs : list (Z * Z))
  : res (NakPdu * PduConfig) :=
  let conf' := conf_set_dir conf DIR_TOWARDS_SENDER in
  do f <- fdir_new conf' DT_NAK 8;
  do p <- nak_calc_len {| nk_fd := f; nk_segs := segs; nk_start := 0; nk_end := 0 |};
  Ok (nak_set_end (nak_set_start p start_of_scope) end_of_scope, conf).

(* segment_requests setter *)
Definition nak_set_segs (p : NakPdu) (segs : list (Z * Z)) : res NakPdu :=
  nak_calc_len (nak_with_segs p segs).

(* file_flag setter: writes the flag into the header's PduConfig, then recomputes the length *)
Definition nak_set_file_flag (p : NakPdu) (v : Z) : res NakPdu :=
  let f := nk_fd p in
  let h := hdr_with_conf (fd_hdr f) (conf_set_large (h_conf (fd_hdr f)) v) in
  nak_calc_len (nak_with_fd p {| fd_hdr := h; fd_type := fd_type f |}).

Definition nak_packet_len (p : NakPdu) : Z := fdir_packet_len (nk_fd p).

(* one (start, end) pair appended to the buffer, as in pack() *)
Definition nak_pack_pair (large : bool) (b : bytes) (s e : Z) : res bytes :=
  if negb large then
    if (s >? 2 ^ 32 - 1) || (e >? 2 ^ 32 - 1) then Err EValue else
    do x <- struct_pack 4 s;
    do y <- struct_pack 4 e;
    Ok ((b ++ x) ++ y)
  else
    do x <- struct_pack 8 s;
    do y <- struct_pack 8 e;
    Ok ((b ++ x) ++ y).

Fixpoint nak_pack_segs (large : bool) (b : bytes) (segs : list (Z * Z)) : res bytes :=
  match segs with
  | [] => Ok b
  | (s, e) :: r => do b' <- nak_pack_pair large b s e; nak_pack_segs large b' r
  end.

(* NakPdu.pack *)
Definition nak_pack (p : NakPdu) : res bytes :=
  do b <- fdir_pack (nk_fd p);
  let large := hdr_large_file (nk_hdr p) in
  do b <- nak_pack_pair large b (nk_start p) (nk_end p);
  do b <- nak_pack_segs large b (nk_segs p);
  if cf_crc (nk_conf p) =? CRC_WITH_CRC then
    do c <- struct_pack 2 (crc16 b); Ok (b ++ c)
  else Ok b.

(* NakPdu.__empty() *)
Definition nak_empty : res NakPdu :=
  do r <- nak_new conf_empty 0 0 []; Ok (fst r).

(* the while loop of unpack: pairs of n-octet values from idx up to stop *)
Fixpoint nak_unpack_segs (fuel : nat) (data : bytes) (idx stop n : Z) (acc : list (Z * Z))
  : res (list (Z * Z)) :=
  match fuel with
  | O => Err EFuel
  | S k =>
      if idx <? stop then
        do s <- struct_unpack (Z.to_nat n) (slice data idx (idx + n));
        let idx := idx + n in
        do e <- struct_unpack (Z.to_nat n) (slice data idx (idx + n));
        let idx := idx + n in
        nak_unpack_segs k data idx stop n (acc ++ [(s, e)])
      else Ok acc
  end.

(* NakPdu.unpack *)
Definition nak_unpack (data : bytes) : res NakPdu :=
  do p <- nak_empty;
  do f <- fdir_unpack data;
  let p := nak_with_fd p f in
  do packet_len <- hdr_verify_length_and_checksum (fd_hdr f) data;
  if negb (fd_type f =? DT_NAK) then Err EValue else
  if len data >? packet_len then Err EValue else
  let current_idx := fdir_header_len f in
  let n := if negb (hdr_large_file (fd_hdr f)) then 4 else 8 in
  let stop := if cf_crc (h_conf (fd_hdr f)) =? CRC_WITH_CRC then packet_len - 2 else packet_len in
  if current_idx + 2 * n >? stop then Err ETooShort else
  do s <- struct_unpack (Z.to_nat n) (slice data current_idx (current_idx + n));
  let p := nak_set_start p s in
  let current_idx := current_idx + n in
  do e <- struct_unpack (Z.to_nat n) (slice data current_idx (current_idx + n));
  let p := nak_set_end p e in
  let current_idx := current_idx + n in
  if current_idx <? stop then
    if negb ((stop - current_idx) mod (n * 2) =? 0) then Err EValue else
    do segs <- nak_unpack_segs (length data + 1) data current_idx stop n [];
    nak_set_segs p segs
  else Ok p.

Fixpoint segs_eqb (a b : list (Z * Z)) : bool :=
  match a, b with
  | [], [] => true
  | (s, e) :: a', (s', e') :: b' => (s =? s') && (e =? e') && segs_eqb a' b'
  | _, _ => false
  end.

(* NakPdu.__eq__ *)
Definition nak_eqb (a b : NakPdu) : bool :=
  fdir_eqb (nk_fd a) (nk_fd b) && segs_eqb (nk_segs a) (nk_segs b) &&
  (nk_start a =? nk_start b) && (nk_end a =? nk_end b).

(* get_max_seg_reqs_for_max_packet_size_and_pdu_cfg(max_packet_size, pdu_conf) *)
Definition nak_max_seg_reqs (max_packet_size : Z) (c : PduConfig) : res Z :=
  let base_decrement := conf_header_len c + 1 in
  let base_decrement := if negb (cf_crc c =? 0) then base_decrement + 2 else base_decrement in
  let base_decrement :=
    if cf_large c =? FILE_NORMAL then base_decrement + 8
    else if cf_large c =? FILE_LARGE then base_decrement + 16
    else base_decrement in
  if max_packet_size <? base_decrement then Err EValue else
  let max_packet_size := max_packet_size - base_decrement in
  if cf_large c =? FILE_NORMAL then Ok (max_packet_size / 8)
  else if cf_large c =? FILE_LARGE then Ok (max_packet_size / 16)
  else Err EValue.

(* What the caller's PduConfig object looks like after the constructor and any later setter
   calls on the PDU: the PDU owns a copy, so it is the object the caller passed in. *)
Definition nak_caller_conf_after (caller : PduConfig) (p : NakPdu) : PduConfig := caller.
