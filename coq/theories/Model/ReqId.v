(* Model of spacepackets/ecss/req_id.py (RequestId).  Definitions only.
   RequestId.__init__ stores a PacketId, a PacketSeqCtrl and the version number without
   any check of its own (the two sub-objects were range-checked by their constructors). *)
From Coq Require Import ZArith List Bool.
From SP Require Import Base.Result Base.Bytes Model.SpacePacket.
Import ListNotations.
Open Scope Z_scope.

Record reqid := { rq_pid : pid; rq_psc : psc; rq_ver : Z }.

(* RequestId.empty(): PacketId.empty() = (TM, False, 0), PacketSeqCtrl.empty() = (CONTINUATION, 0) *)
Definition reqid_empty : reqid :=
  {| rq_pid := {| pid_ptype := PT_TM; pid_shf := 0; pid_apid := 0 |};
     rq_psc := {| psc_flags := SF_CONT; psc_count := 0 |};
     rq_ver := 0 |}.

(* RequestId.from_sp_header / from_pus_tc *)
Definition reqid_from_sph (h : sph) : reqid :=
  {| rq_pid := sph_pid h; rq_psc := sph_psc h; rq_ver := ver h |}.

(* (ccsds_version << 13) | tc_packet_id.raw() *)
Definition reqid_word0 (r : reqid) : Z := Z.lor (Z.shiftl (rq_ver r) 13) (pid_raw (rq_pid r)).

Definition reqid_pack (r : reqid) : res bytes :=
  do w0 <- struct_pack 2 (reqid_word0 r);
  do w1 <- struct_pack 2 (psc_raw (rq_psc r));
  Ok (w0 ++ w1).

Definition reqid_as_u32 (r : reqid) : Z :=
  Z.lor (Z.shiftl (reqid_word0 r) 16) (psc_raw (rq_psc r)).

Definition reqid_unpack (d : bytes) : res reqid :=
  if len d <? 4 then Err ETooShort else
  do w0 <- struct_unpack 2 (slice d 0 2);
  do w1 <- struct_unpack 2 (slice d 2 4);
  let v := Z.land (Z.shiftr w0 13) 7 in
  do p <- pid_from_raw w0;
  do s <- psc_from_raw w1;
  Ok {| rq_pid := p; rq_psc := s; rq_ver := v |}.

(* __eq__ : self.as_u32() == other.as_u32() *)
Definition reqid_eqb (a b : reqid) : bool := reqid_as_u32 a =? reqid_as_u32 b.

(* __hash__ : self.as_u32().__hash__() -- CPython's hash of an int on a 64-bit build:
   sign * (|v| mod (2^61 - 1)), with -1 replaced by -2 *)
Definition py_int_hash (v : Z) : Z :=
  let m := 2 ^ 61 - 1 in
  if 0 <=? v then v mod m
  else let h := - ((- v) mod m) in if h =? -1 then -2 else h.
Definition reqid_hash (r : reqid) : Z := py_int_hash (reqid_as_u32 r).

(* ---- operation histories: the three attributes of a RequestId and the attributes of the
   PacketId / PacketSeqCtrl objects it holds are public and assigned without any check ---- *)
Inductive rq_op :=
| RqVer (v : Z) | RqPtype (v : Z) | RqShf (v : Z) | RqApid (v : Z) | RqFlags (v : Z) | RqCount (v : Z)
| RqPack | RqObserve | RqEqFresh.

Definition reqid_apply (r : reqid) (o : rq_op) : reqid :=
  let p := rq_pid r in let s := rq_psc r in
  match o with
  | RqVer v => {| rq_pid := p; rq_psc := s; rq_ver := v |}
  | RqPtype v => {| rq_pid := {| pid_ptype := v; pid_shf := pid_shf p; pid_apid := pid_apid p |};
                    rq_psc := s; rq_ver := rq_ver r |}
  | RqShf v => {| rq_pid := {| pid_ptype := pid_ptype p; pid_shf := v; pid_apid := pid_apid p |};
                  rq_psc := s; rq_ver := rq_ver r |}
  | RqApid v => {| rq_pid := {| pid_ptype := pid_ptype p; pid_shf := pid_shf p; pid_apid := v |};
                   rq_psc := s; rq_ver := rq_ver r |}
  | RqFlags v => {| rq_pid := p; rq_psc := {| psc_flags := v; psc_count := psc_count s |};
                    rq_ver := rq_ver r |}
  | RqCount v => {| rq_pid := p; rq_psc := {| psc_flags := psc_flags s; psc_count := v |};
                    rq_ver := rq_ver r |}
  | RqPack | RqObserve | RqEqFresh => r
  end.

(* fresh = RequestId(PacketId(<current>), PacketSeqCtrl(<current>), <current version>);
   r == fresh, fresh == r, hash(r) == hash(fresh), r == RequestId.unpack(r.pack()) *)
Definition reqid_eq_fresh (r : reqid) : res (bool * bool * bool * bool) :=
  do p <- pid_new (pid_ptype (rq_pid r)) (pid_shf (rq_pid r)) (pid_apid (rq_pid r));
  do s <- psc_new (psc_flags (rq_psc r)) (psc_count (rq_psc r));
  let f := {| rq_pid := p; rq_psc := s; rq_ver := rq_ver r |} in
  do b <- reqid_pack r;
  do u <- reqid_unpack b;
  Ok (reqid_eqb r f, reqid_eqb f r, reqid_hash r =? reqid_hash f, reqid_eqb r u).
