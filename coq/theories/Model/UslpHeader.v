(* Model of spacepackets/uslp/header.py (PrimaryHeaderBase, TruncatedPrimaryHeader,
   PrimaryHeader, determine_header_type) and the exception numbering of
   spacepackets/uslp/defs.py.  Definitions only. *)
From Coq Require Import ZArith List Bool.
From SP Require Import Base.Result Base.Bytes.
Import ListNotations.
Open Scope Z_scope.

Definition USLP_VERSION_NUMBER : Z := 12.    (* 0b1100 *)
Definition HT_NON_TRUNCATED : Z := 0.
Definition HT_TRUNCATED : Z := 1.
Definition SRC : Z := 0.
Definition DEST : Z := 1.

(* the seven exceptions of uslp/defs.py, numbered as harness/core.py classify_exception *)
Definition EInvalidLen : err := EUslp 0.        (* UslpInvalidRawPacketOrFrameLen *)
Definition EInvalidFrameHeader : err := EUslp 1.
Definition ETruncatedNotAllowed : err := EUslp 2.
Definition EInvalidConstrRules : err := EUslp 3.
Definition EFhpMissing : err := EUslp 4.        (* UslpFhpVhopFieldMissing *)
Definition EVersionMissmatch : err := EUslp 5.
Definition ETypeMissmatch : err := EUslp 6.

(* ---- PrimaryHeaderBase ---- *)
Record hbase := { scid : Z; src_dest : Z; vcid : Z; map_id : Z }.

(* _pack_common_header(truncated): range guard, then four bytearray.append *)
Definition pack_common (b : hbase) (truncated : Z) : res bytes :=
  if (scid b >? 2 ^ 16 - 1) || (vcid b >? 2 ^ 6 - 1) || (map_id b >? 2 ^ 4 - 1)
     || (scid b <? 0) || (vcid b <? 0) || (map_id b <? 0)
  then Err EValue else
  do p <- ba_append [] (Z.lor (Z.shiftl USLP_VERSION_NUMBER 4) (Z.land (Z.shiftr (scid b) 12) 15));
  do p <- ba_append p (Z.land (Z.shiftr (scid b) 4) 255);
  do p <- ba_append p (Z.lor (Z.lor (Z.shiftl (Z.land (scid b) 15) 4) (Z.shiftl (src_dest b) 3))
                             (Z.land (Z.shiftr (vcid b) 3) 7));
  do p <- ba_append p (Z.lor (Z.lor (Z.shiftl (Z.land (vcid b) 7) 5) (Z.shiftl (map_id b) 1))
                             truncated);
  Ok p.

(* _unpack_raw_header_base_fields(raw, truncated, uslp_version) *)
Definition unpack_base (raw : bytes) (truncated : Z) (uslp_version : Z) : res hbase :=
  if len raw <? 4 then Err EInvalidLen else
  do r0 <- py_get raw 0;
  let version_number := Z.shiftr (Z.land r0 240) 4 in
  if negb (version_number =? uslp_version) then Err EVersionMissmatch else
  do r1 <- py_get raw 1;
  do r2 <- py_get raw 2;
  let scid := Z.lor (Z.lor (Z.shiftl (Z.land r0 15) 12) (Z.shiftl r1 4))
                    (Z.shiftr (Z.land r2 240) 4) in
  let src_dest := Z.shiftr (Z.land r2 8) 3 in
  do r3 <- py_get raw 3;
  let vcid := Z.lor (Z.shiftl (Z.land r2 7) 3) (Z.land (Z.shiftr r3 5) 7) in
  let map_id := Z.land (Z.shiftr r3 1) 15 in
  let eof := Z.land r3 1 in
  if negb (eof =? truncated) then Err ETypeMissmatch else
  Ok {| scid := scid; src_dest := src_dest; vcid := vcid; map_id := map_id |}.

(* ---- TruncatedPrimaryHeader ---- *)
Definition thdr_pack (b : hbase) : res bytes := pack_common b 1.
Definition thdr_len (b : hbase) : Z := 4.
Definition thdr_unpack (raw : bytes) (uslp_version : Z) : res hbase := unpack_base raw 1 uslp_version.

(* ---- PrimaryHeader ---- *)
Record phdr := {
  pbase : hbase; frame_len : Z; bypass : Z; prot : Z; ocf_flag : Z;
  vcf_len : Z; vcf_count : option Z }.

(* for idx in range(vcf_count_len, 0, -1): append((vcf_count >> ((idx-1)*8)) & 0xFF) *)
Fixpoint vcf_loop (n : nat) (v : Z) : bytes :=
  match n with
  | O => []
  | S k => Z.land (Z.shiftr v (Z.of_nat k * 8)) 255 :: vcf_loop k v
  end.

Definition phdr_pack (h : phdr) : res bytes :=
  do p <- pack_common (pbase h) 0;
  do p <- ba_append p (Z.land (Z.shiftr (frame_len h) 8) 255);
  do p <- ba_append p (Z.land (frame_len h) 255);
  do p <- ba_append p (Z.lor (Z.lor (Z.lor (Z.shiftl (bypass h) 7) (Z.shiftl (prot h) 6))
                                    (Z.shiftl (ocf_flag h) 3))
                             (vcf_len h));
  match vcf_count h with
  | None => if vcf_len h >? 0 then Err EValue else Ok p   (* every branch below is empty for len <= 0 *)
  | Some c =>
      if vcf_len h =? 1 then ba_append p c
      else if vcf_len h =? 2 then do w <- struct_pack 2 c; Ok (p ++ w)
      else if vcf_len h =? 4 then do w <- struct_pack 4 c; Ok (p ++ w)
      else Ok (p ++ vcf_loop (Z.to_nat (vcf_len h)) c)
  end.

Definition phdr_len (h : phdr) : Z := 7 + vcf_len h.

(* count = 0; end = n; for idx in range(n): count |= raw[7+idx] << ((end-1)*8); end -= 1 *)
Fixpoint vcf_unloop (raw : bytes) (n : nat) (idx : Z) (acc : Z) : res Z :=
  match n with
  | O => Ok acc
  | S k => do b <- py_get raw (7 + idx);
           vcf_unloop raw k (idx + 1) (Z.lor acc (Z.shiftl b (Z.of_nat k * 8)))
  end.

Definition phdr_unpack (raw : bytes) (uslp_version : Z) : res phdr :=
  if len raw <? 7 then Err EInvalidLen else
  do b <- unpack_base raw 0 uslp_version;
  do r4 <- py_get raw 4;
  do r5 <- py_get raw 5;
  do r6 <- py_get raw 6;
  let frame_len := Z.lor (Z.shiftl r4 8) r5 in
  let bypass := Z.land (Z.shiftr r6 7) 1 in
  let prot := Z.land (Z.shiftr r6 6) 1 in
  let ocf := Z.land (Z.shiftr r6 3) 1 in
  let n := Z.land r6 7 in
  if n >? len raw - 7 then Err EInvalidLen else
  do c <- (if n =? 1 then py_get raw 7
           else if n =? 2 then struct_unpack 2 (slice raw 7 9)
           else if n =? 4 then struct_unpack 4 (slice raw 7 11)
           else vcf_unloop raw (Z.to_nat n) 0 0);
  Ok {| pbase := b; frame_len := frame_len; bypass := bypass; prot := prot; ocf_flag := ocf;
        vcf_len := n; vcf_count := Some c |}.

(* ---- determine_header_type ---- *)
Definition determine_header_type (raw : bytes) : res Z :=
  if len raw <? 4 then Err EValue else
  do r3 <- py_get raw 3;
  if negb (Z.land r3 1 =? 0) then Ok HT_TRUNCATED else Ok HT_NON_TRUNCATED.
