(* Model of the reserved-CFDP-message part of spacepackets/cfdp/tlv/msg_to_user.py:
   MessageToUserTlv.is_reserved_cfdp_message / to_reserved_msg_tlv, ReservedCfdpMessage and its
   get_* parsers, the nine message builders.  Definitions only.
   A MessageToUserTlv / ReservedCfdpMessage object is its wrapped CfdpTlv (Model/Tlv.v). *)
From Coq Require Import ZArith List Bool.
From SP Require Import Base.Result Base.Bytes Base.Utf8 Model.Lv Model.Tlv.
Import ListNotations.
Open Scope Z_scope.

(* ---- defs.py ---- *)
Definition PM_PUT_REQUEST : Z := 0.
Definition PM_MSG_TO_USER : Z := 1.
Definition PM_FS_REQUEST : Z := 2.
Definition PM_FAULT_HANDLER_OVERRIDE : Z := 3.
Definition PM_TRANSMISSION_MODE : Z := 4.
Definition PM_FLOW_LABEL : Z := 5.
Definition PM_SEGMENTATION_CTRL : Z := 6.
Definition PM_PUT_RESPONSE : Z := 7.
Definition PM_FS_RESPONSE : Z := 8.
Definition PM_PUT_CANCEL : Z := 9.
Definition PM_CLOSURE_REQUEST : Z := 11.
Definition proxy_types : list Z :=
  [PM_PUT_REQUEST; PM_MSG_TO_USER; PM_FS_REQUEST; PM_FAULT_HANDLER_OVERRIDE; PM_TRANSMISSION_MODE;
   PM_FLOW_LABEL; PM_SEGMENTATION_CTRL; PM_PUT_RESPONSE; PM_FS_RESPONSE; PM_PUT_CANCEL;
   PM_CLOSURE_REQUEST].
Definition ORIGINATING_TRANSACTION_ID_MSG_TYPE_ID : Z := 10.
Definition DM_LISTING_REQUEST : Z := 16.
Definition DM_LISTING_RESPONSE : Z := 17.
Definition DM_CUSTOM_LISTING_PARAMETERS : Z := 21.
Definition dir_types : list Z := [DM_LISTING_REQUEST; DM_LISTING_RESPONSE; DM_CUSTOM_LISTING_PARAMETERS].

(* cfdp/defs.py : ConditionCode members (NO_CONDITION_FIELD = -1 included) *)
Definition condition_codes : list Z := [-1; 0; 1; 2; 3; 4; 5; 6; 7; 8; 10; 11; 14; 15].
Definition condition_code_of_int (x : Z) : res Z :=
  if memz x condition_codes then Ok x else Err EValue.
(* DeliveryCode {0,1}, FileStatus {0..3}, TransmissionMode {0,1} *)
Definition enum_upto (n x : Z) : res Z := if (0 <=? x) && (x <=? n) then Ok x else Err EValue.

(* "cfdp".encode() *)
Definition CFDP_MARKER : bytes := [99; 102; 100; 112].

(* ---- UnsignedByteField as far as the messages need it: (value, byte_len) ---- *)
Definition ubf := (Z * Z)%type.
Definition ubf_valid_len (w : Z) : bool :=
  (w =? 0) || (w =? 1) || (w =? 2) || (w =? 4) || (w =? 8).
(* UnsignedByteField(val, byte_len) *)
Definition ubf_new (v w : Z) : res ubf :=
  if negb (ubf_valid_len w) then Err EValue else
  if (v >? 256 ^ w - 1) || (v <? 0) then Err EValue else Ok (v, w).
Definition ubf_as_bytes (u : ubf) : bytes := be_encode (Z.to_nat (snd u)) (fst u).
(* UnsignedByteField.from_bytes(raw) *)
Definition ubf_from_bytes (raw : bytes) : res ubf :=
  if negb (ubf_valid_len (len raw)) then Err EValue else Ok (be_decode raw, len raw).

(* ---- MessageToUserTlv ---- *)
Definition is_reserved_cfdp_message (t : tlv) : res bool :=
  if len (tlv_value t) >=? 5 then
    Ok (bytes_eqb (slice (tlv_value t) 0 4) CFDP_MARKER)     (* value[0:4] == b"cfdp" *)
  else Ok false.

(* ReservedCfdpMessage.__init__ *)
Definition reserved_new (msg_type : Z) (value : bytes) : res tlv :=
  if negb (msg_type <=? 255) then Err EAssert else         (* assert msg_type <= pow(2, 8) - 1 *)
  do fv <- ba_append CFDP_MARKER msg_type;
  tlv_new TLV_MESSAGE_TO_USER (fv ++ value).

Definition to_reserved_msg_tlv (t : tlv) : res (option tlv) :=
  do b <- is_reserved_cfdp_message t;
  if negb b then Ok None else
  do mt <- py_get (tlv_value t) 4;
  do r <- reserved_new mt (slice_from (tlv_value t) 5);
  Ok (Some r).

(* ReservedCfdpMessage.to_generic_msg_to_user_tlv *)
Definition to_generic_msg_to_user_tlv (r : tlv) : res tlv := msg_from_tlv r.

(* ---- ReservedCfdpMessage classification ---- *)
Definition get_reserved_cfdp_message_type (r : tlv) : res Z := py_get (tlv_value r) 4.
Definition is_cfdp_proxy_operation (r : tlv) : res bool :=
  do mt <- get_reserved_cfdp_message_type r; Ok (memz mt proxy_types).
Definition is_directory_operation (r : tlv) : res bool :=
  do mt <- get_reserved_cfdp_message_type r; Ok (memz mt dir_types).
Definition is_originating_transaction_id (r : tlv) : res bool :=
  do mt <- get_reserved_cfdp_message_type r; Ok (mt =? ORIGINATING_TRANSACTION_ID_MSG_TYPE_ID).
Definition get_cfdp_proxy_message_type (r : tlv) : res (option Z) :=
  do b <- is_cfdp_proxy_operation r;
  if negb b then Ok None else do mt <- get_reserved_cfdp_message_type r; Ok (Some mt).
Definition get_directory_operation_type (r : tlv) : res (option Z) :=
  do b <- is_directory_operation r;
  if negb b then Ok None else do mt <- get_reserved_cfdp_message_type r; Ok (Some mt).

(* `not self.is_cfdp_proxy_operation() or self.get_cfdp_proxy_message_type() != X` *)
Definition not_proxy_kind (r : tlv) (kind : Z) : res bool :=
  do b <- is_cfdp_proxy_operation r;
  if negb b then Ok true else
  do o <- get_cfdp_proxy_message_type r;
  Ok (match o with Some mt => negb (mt =? kind) | None => true end).
Definition not_dir_kind (r : tlv) (kind : Z) : res bool :=
  do b <- is_directory_operation r;
  if negb b then Ok true else
  do o <- get_directory_operation_type r;
  Ok (match o with Some mt => negb (mt =? kind) | None => true end).

(* ---- the parsers ---- *)
Definition get_originating_transaction_id (r : tlv) : res (option (ubf * ubf)) :=
  let v := tlv_value r in
  do b <- is_originating_transaction_id r;
  if negb b then Ok None else
  if len v <? 6 then Err EValue else
  do v5 <- py_get v 5;
  let source_id_len := Z.land (Z.shiftr v5 4) 7 + 1 in
  let seq_num_len := Z.land v5 7 + 1 in
  if len v <? 6 + source_id_len + seq_num_len then Err EValue else
  let source_id := slice v 6 (6 + source_id_len) in
  let seq_num := slice v (6 + source_id_len) (6 + source_id_len + seq_num_len) in
  do s <- ubf_from_bytes source_id;
  do q <- ubf_from_bytes seq_num;
  Ok (Some (s, q)).

Definition get_proxy_put_request_params (r : tlv) : res (option (ubf * lv * lv)) :=
  let v := tlv_value r in
  do n <- not_proxy_kind r PM_PUT_REQUEST;
  if n then Ok None else
  do dest_id_lv <- lv_unpack (slice_from v 5);
  let idx1 := 5 + lv_packet_len dest_id_lv in
  if idx1 >=? len v then Ok None else
  do source_name_lv <- lv_unpack (slice_from v idx1);
  let idx2 := idx1 + lv_packet_len source_name_lv in
  if idx2 >=? len v then Ok None else
  do dest_name_lv <- lv_unpack (slice_from v idx2);
  do id <- ubf_from_bytes dest_id_lv;
  Ok (Some (id, source_name_lv, dest_name_lv)).

Definition get_proxy_put_response_params (r : tlv) : res (option (Z * Z * Z)) :=
  let v := tlv_value r in
  do n <- not_proxy_kind r PM_PUT_RESPONSE;
  if n then Ok None else
  if len v <? 6 then Err EValue else
  do v5 <- py_get v 5;
  do cc <- condition_code_of_int (Z.land (Z.shiftr v5 4) 15);
  do dc <- enum_upto 1 (Z.land (Z.shiftr v5 2) 1);
  do fs <- enum_upto 3 (Z.land v5 3);
  Ok (Some (cc, dc, fs)).

Definition get_proxy_closure_requested (r : tlv) : res (option Z) :=
  do n <- not_proxy_kind r PM_CLOSURE_REQUEST;
  if n then Ok None else
  if len (tlv_value r) <? 6 then Err EValue else
  do v5 <- py_get (tlv_value r) 5;
  Ok (Some (Z.land v5 1)).

Definition get_proxy_transmission_mode (r : tlv) : res (option Z) :=
  do n <- not_proxy_kind r PM_TRANSMISSION_MODE;
  if n then Ok None else
  if len (tlv_value r) <? 6 then Err EValue else
  do v5 <- py_get (tlv_value r) 5;
  do m <- enum_upto 1 (Z.land v5 1);
  Ok (Some m).

Definition get_dir_listing_request_params (r : tlv) : res (option (lv * lv)) :=
  let v := tlv_value r in
  do n <- not_dir_kind r DM_LISTING_REQUEST;
  if n then Ok None else
  do dir_path_lv <- lv_unpack (slice_from v 5);
  do dir_file_name_lv <- lv_unpack (slice_from v (5 + lv_packet_len dir_path_lv));
  Ok (Some (dir_path_lv, dir_file_name_lv)).

Definition get_dir_listing_response_params (r : tlv) : res (option (Z * lv * lv)) :=
  let v := tlv_value r in
  do n <- not_dir_kind r DM_LISTING_RESPONSE;
  if n then Ok None else
  if len v <? 6 then Err EValue else
  do v5 <- py_get v 5;
  let listing_success := Z.land (Z.shiftr v5 7) 1 in
  do dir_path_lv <- lv_unpack (slice_from v 6);
  do dir_file_name_lv <- lv_unpack (slice_from v (6 + lv_packet_len dir_path_lv));
  Ok (Some (listing_success, dir_path_lv, dir_file_name_lv)).

Definition get_dir_listing_options (r : tlv) : res (option (Z * Z)) :=
  let v := tlv_value r in
  do n <- not_dir_kind r DM_CUSTOM_LISTING_PARAMETERS;
  if n then Ok None else
  if len v <? 6 then Err EValue else
  do v5 <- py_get v 5;
  Ok (Some (Z.land (Z.shiftr v5 1) 1, Z.land v5 1)).

(* ---- the builders ---- *)
(* bytes([x]) *)
Definition one_byte (x : Z) : res bytes := if is_byte x then Ok [x] else Err EValue.

Definition proxy_put_request (dest_id : ubf) (source_name dest_name : lv) : res tlv :=
  do id_lv <- lv_new (ubf_as_bytes dest_id);
  reserved_new PM_PUT_REQUEST (lv_pack id_lv ++ lv_pack source_name ++ lv_pack dest_name).

Definition proxy_cancel_request : res tlv := reserved_new PM_PUT_CANCEL [].

Definition proxy_closure_request (closure_requested : Z) : res tlv :=
  do b <- one_byte closure_requested; reserved_new PM_CLOSURE_REQUEST b.

Definition proxy_transmission_mode (mode : Z) : res tlv :=
  do b <- one_byte mode; reserved_new PM_TRANSMISSION_MODE b.

Definition originating_transaction_id (source_id seq_num : ubf) : res tlv :=
  let ok w := (w =? 1) || (w =? 2) || (w =? 4) || (w =? 8) in
  if negb (ok (snd source_id)) || negb (ok (snd seq_num)) then Err EValue else
  do b <- one_byte (Z.lor (Z.shiftl (snd source_id - 1) 4) (snd seq_num - 1));
  reserved_new ORIGINATING_TRANSACTION_ID_MSG_TYPE_ID
               (b ++ ubf_as_bytes source_id ++ ubf_as_bytes seq_num).

Definition directory_listing_request (dir_path dir_file_name : lv) : res tlv :=
  reserved_new DM_LISTING_REQUEST (lv_pack dir_path ++ lv_pack dir_file_name).

Definition directory_listing_response (listing_success : Z) (dir_path dir_file_name : lv) : res tlv :=
  do b <- one_byte (Z.shiftl listing_success 7);
  reserved_new DM_LISTING_RESPONSE (b ++ lv_pack dir_path ++ lv_pack dir_file_name).

Definition directory_listing_parameters (recursive all : Z) : res tlv :=
  do b <- one_byte (Z.lor (Z.shiftl recursive 1) all);
  reserved_new DM_CUSTOM_LISTING_PARAMETERS b.

Definition proxy_put_response (cc dc fs : Z) : res tlv :=
  do b <- one_byte (Z.lor (Z.lor (Z.shiftl cc 4) (Z.shiftl dc 2)) fs);
  reserved_new PM_PUT_RESPONSE b.

(* the decode path of the property: MessageToUserTlv.unpack(data).to_reserved_msg_tlv() *)
Definition decode_reserved (data : bytes) : res (option tlv) :=
  do t <- msg_unpack data; to_reserved_msg_tlv t.
