(* Extended operation histories on ONE live PusTm object (and on the PusTm held by a Service17Tm
   wrapper): alternate construction paths, every public mutation path incl. the attributes of
   tm.space_packet_header and tm.pus_tm_sec_header, replacement of the sub-objects, repeated packs,
   pack(recalc_crc=False), calc_crc, generic space-packet views, equality, re-decoding.
   Definitions only; mirror of spacepackets/ecss/tm.py and pus_17_test.py. *)
From Coq Require Import ZArith List Bool.
From SP Require Import Base.Result Base.Bytes Base.Crc16 Model.SpacePacket Model.PusTc Model.PusTm Model.PusTcHist.
Import ListNotations.
Open Scope Z_scope.

(* PusTm.pack(recalc_crc=False) *)
Definition tm_pack_norecalc (t : tm) : res (bytes * tm) :=
  match tm_crc t with
  | None => tm_pack t
  | Some c =>
    do h <- sph_pack (tm_sph t);
    do s <- tmsec_pack (tm_sec t);
    Ok (h ++ s ++ tm_src t ++ c, t)
  end.

(* PusTm.from_composite_fields: refuses a TC header, adopts everything as given *)
Definition tm_from_composite_fields (h : sph) (s : tmsec) (d : bytes) : res tm :=
  if ptype h =? PT_TC then Err EValue else
  Ok {| tm_sph := h; tm_sec := s; tm_src := d; tm_crc := None |}.

(* secondary header attribute index: 0 pus_version, 1 spacecraft_time_ref, 2 service, 3 subservice,
   4 message_counter, 5 dest_id *)
Definition tmsec_set (s : tmsec) (f v : Z) : tmsec :=
  {| tms_version := if f =? 0 then v else tms_version s; tms_ref := if f =? 1 then v else tms_ref s;
     tms_service := if f =? 2 then v else tms_service s;
     tms_subservice := if f =? 3 then v else tms_subservice s;
     tms_msgcnt := if f =? 4 then v else tms_msgcnt s; tms_dest := if f =? 5 then v else tms_dest s;
     tms_stamp := tms_stamp s |}.
Definition tmsec_set_stamp (s : tmsec) (d : bytes) : tmsec :=
  {| tms_version := tms_version s; tms_ref := tms_ref s; tms_service := tms_service s;
     tms_subservice := tms_subservice s; tms_msgcnt := tms_msgcnt s; tms_dest := tms_dest s;
     tms_stamp := d |}.

Definition tm_with_sph (t : tm) (h : sph) : tm :=
  {| tm_sph := h; tm_sec := tm_sec t; tm_src := tm_src t; tm_crc := tm_crc t |}.
Definition tm_with_sec (t : tm) (s : tmsec) : tm :=
  {| tm_sph := tm_sph t; tm_sec := s; tm_src := tm_src t; tm_crc := tm_crc t |}.

Definition tmsec_eq_res (a b : tmsec) : res bool :=
  do x <- tmsec_pack a; do y <- tmsec_pack b; Ok (bytes_eqb x y).
Definition tm_eq_res (a b : tm) : res bool :=
  do e1 <- sph_eq_res (tm_sph a) (tm_sph b);
  if negb e1 then Ok false else
  do e2 <- tmsec_eq_res (tm_sec a) (tm_sec b);
  if negb e2 then Ok false else
  Ok (bytes_eqb (tm_src a) (tm_src b)).

Definition tm_view (t : tm) : res (bytes * tm) :=
  do t' <- tm_calc_crc t;
  do b <- tm_to_space_packet_pack t;
  Ok (b, t').

Inductive tmx_op :=
| YPack | YPackNoRecalc | YCalcCrc | YView | YInspect | YEq | YRoundtrip | YSwitch
| YSetData (d : bytes) | YExtendData (d : bytes)
| YSetHdr (f v : Z) | YSetSec (f v : Z) | YSetStamp (d : bytes)
| YNewHdr (l : list Z)          (* SpacePacketHeader(ptype, apid, count, dlen, shf, flags, version) *)
| YNewSec (l : list Z) (d : bytes). (* PusTmSecondaryHeader(service, subservice, d, msgcnt, dest, ref) *)

Inductive tmx_out :=
| PNone | PBytes (b : bytes) | PState (t : tm) | PEq (x y : bool) | PRound (e : bool) (u : tm).

Definition tmx_step (t0 t : tm) (o : tmx_op) : tm * res tmx_out :=
  match o with
  | YPack => match tm_pack t with Ok (b, t') => (t', Ok (PBytes b)) | Err e => (t, Err e) end
  | YPackNoRecalc => match tm_pack_norecalc t with Ok (b, t') => (t', Ok (PBytes b)) | Err e => (t, Err e) end
  | YCalcCrc => match tm_calc_crc t with Ok t' => (t', Ok PNone) | Err e => (t, Err e) end
  | YView => match tm_view t with Ok (b, t') => (t', Ok (PBytes b)) | Err e => (t, Err e) end
  | YInspect => (t, Ok (PState t))
  | YEq => (t, do x <- tm_eq_res t t0; do y <- tm_eq_res t0 t; Ok (PEq x y))
  | YRoundtrip =>
      match tm_pack t with
      | Err e => (t, Err e)
      | Ok (b, t') => (t', do u <- tm_unpack b (len (tms_stamp (tm_sec t')));
                           do e <- tm_eq_res u t'; Ok (PRound e u))
      end
  | YSwitch =>
      match tm_pack t with
      | Err e => (t, Err e)
      | Ok (b, t') => match tm_unpack b (len (tms_stamp (tm_sec t'))) with
                      | Ok u => (u, Ok PNone) | Err e => (t', Err e) end
      end
  | YSetData d => (tm_set_tm_data t d, Ok PNone)
  | YExtendData d => (tm_set_tm_data t (tm_src t ++ d), Ok PNone)
  | YSetHdr f v => (tm_with_sph t (sph_set (tm_sph t) f v), Ok PNone)
  | YSetSec f v => (tm_with_sec t (tmsec_set (tm_sec t) f v), Ok PNone)
  | YSetStamp d => (tm_with_sec t (tmsec_set_stamp (tm_sec t) d), Ok PNone)
  | YNewHdr l =>
      match sph_new (nth 0 l 0) (nth 1 l 0) (nth 2 l 0) (nth 3 l 0) (nth 4 l 0) (nth 5 l 0) (nth 6 l 0) with
      | Ok h => (tm_with_sph t h, Ok PNone) | Err e => (t, Err e) end
  | YNewSec l d =>
      match tmsec_new (nth 0 l 0) (nth 1 l 0) d (nth 2 l 0) (nth 3 l 0) (nth 4 l 0) with
      | Ok s => (tm_with_sec t s, Ok PNone) | Err e => (t, Err e) end
  end.

Fixpoint tmx_run (t0 t : tm) (ops : list tmx_op) : tm * list (res tmx_out) :=
  match ops with
  | [] => (t, [])
  | o :: r => let '(t', out) := tmx_step t0 t o in
              let '(t'', outs) := tmx_run t0 t' r in (t'', out :: outs)
  end.

(* construction paths.  p = [path; service; subservice; apid; count; msgcnt; ref; dest; version; _;
   ptype; shf; flags; dlen] *)
Definition tmx_make (p : list Z) (stamp src : bytes) : res tm :=
  let g := fun i => nth i p 0 in
  match g 0%nat with
  | 0 => tm_new (g 1%nat) (g 2%nat) stamp src (g 3%nat) (g 4%nat) (g 5%nat) (g 6%nat) (g 7%nat) (g 8%nat)
  | 2 => do h <- sph_new (g 10%nat) (g 3%nat) (g 4%nat) (g 13%nat) (g 11%nat) (g 12%nat) (g 8%nat);
         do s <- tmsec_new (g 1%nat) (g 2%nat) stamp (g 5%nat) (g 7%nat) (g 6%nat);
         tm_from_composite_fields h s src
  | 3 => do t <- tm_new (g 1%nat) (g 2%nat) stamp src (g 3%nat) (g 4%nat) (g 5%nat) (g 6%nat) (g 7%nat) (g 8%nat);
         do r <- tm_pack t; tm_unpack (fst r) (len stamp)
  | 4 => srv17_new (g 3%nat) (g 2%nat) stamp (g 4%nat) src (g 8%nat) (g 6%nat) (g 7%nat)
  | 5 => do t <- tm_new (g 1%nat) (g 2%nat) stamp src (g 3%nat) (g 4%nat) (g 5%nat) (g 6%nat) (g 7%nat) (g 8%nat);
         do r <- tm_pack t; srv17_unpack (fst r) (len stamp)
  | 6 => tm_new (g 1%nat) (g 2%nat) stamp [] 0 0 0 0 0 0
  (* PusTm.empty(): timestamp = CdsShortTimestamp.empty().pack() *)
  | 7 => tm_new 0 0 [64; 0; 0; 0; 0; 0; 0] [] 0 0 0 0 0 0
  (* Service17Tm(apid, subservice, timestamp) with every default *)
  | 8 => srv17_new (g 3%nat) (g 2%nat) stamp 0 [] 0 0 0
  | _ => Err EOther
  end.
