(* Model of spacepackets/uslp/frame.py (managed-parameter classes,
   TransferFrameDataField, TransferFrame).  Definitions only. *)
From Coq Require Import ZArith List Bool.
From SP Require Import Base.Result Base.Bytes Model.UslpHeader.
Import ListNotations.
Open Scope Z_scope.

Definition USLP_TFDF_MAX_SIZE : Z := 65529.

(* TfdzConstructionRules *)
Definition FpPacketSpanningMultipleFrames : Z := 0.
Definition FpFixedStartOfMapaSDU : Z := 1.
Definition FpContinuingPortionOfMapaSDU : Z := 2.
Definition VpOctetStream : Z := 3.
Definition VpStartingSegment : Z := 4.
Definition VpContinuingSegment : Z := 5.
Definition VpLastSegment : Z := 6.
Definition VpNoSegmentation : Z := 7.

(* FrameType *)
Inductive ftype := FtFixed | FtVariable.
Definition FT_FIXED : Z := 0.
Definition FT_VARIABLE : Z := 1.

(* Python slices with arbitrary (also negative) integer bounds: d[a:b], d[a:] *)
Definition norm_idx (n i : Z) : Z := if i <? 0 then Z.max 0 (i + n) else Z.min i n.
Definition py_slice (d : bytes) (a b : Z) : bytes :=
  slice d (norm_idx (len d) a) (norm_idx (len d) b).
Definition py_slice_from (d : bytes) (a : Z) : bytes := slice_from d (norm_idx (len d) a).

(* ---- FramePropertiesBase / FixedFrameProperties / VarFrameProperties ----
   is_fixed distinguishes the two classes; size_or_len is fixed_len resp.
   truncated_frame_len.  The constructor refuses present-without-size, so a size
   is only ever read when it exists; absent sizes are stored as 0. *)
Record fprops := {
  p_fixed : bool; p_len : Z;
  iz_present : bool; iz_size : Z;
  fecf_present : bool; fecf_size : Z }.

Definition props_new (is_fixed : bool) (size_or_len : Z) (has_iz has_fecf : bool)
           (iz_len fecf_len : option Z) : res fprops :=
  if has_iz && (match iz_len with None => true | _ => false end) then Err EValue else
  if has_fecf && (match fecf_len with None => true | _ => false end) then Err EValue else
  Ok {| p_fixed := is_fixed; p_len := size_or_len;
        iz_present := has_iz; iz_size := match iz_len with Some s => s | None => 0 end;
        fecf_present := has_fecf; fecf_size := match fecf_len with Some s => s | None => 0 end |}.

(* ---- TransferFrameDataField ---- *)
Record tfdf := { rules : Z; ident : Z; fhp : option Z; tfdz : bytes; tsize : Z }.

Definition tfdf_header_len (fhp : option Z) : Z := match fhp with None => 1 | Some _ => 3 end.

(* the tfdz property setter *)
Definition tfdf_set_tfdz (t : tfdf) (d : bytes) : tfdf :=
  {| rules := rules t; ident := ident t; fhp := fhp t; tfdz := d;
     tsize := tfdf_header_len (fhp t) + len d |}.

Definition tfdf_len (t : tfdf) : Z := tsize t.

Definition tfdf_new (r i : Z) (d : bytes) (f : option Z) : res tfdf :=
  let t := tfdf_set_tfdz {| rules := r; ident := i; fhp := f; tfdz := []; tsize := 0 |} d in
  let allowed_max_len := USLP_TFDF_MAX_SIZE - tfdf_header_len f in
  if tfdf_len t >? allowed_max_len then Err EValue else Ok t.

Definition cnstr_rules_for_fp (r : Z) : bool :=
  (r =? FpPacketSpanningMultipleFrames) || (r =? FpContinuingPortionOfMapaSDU)
  || (r =? FpFixedStartOfMapaSDU).
Definition cnstr_rules_for_vp (r : Z) : bool :=
  (r =? VpContinuingSegment) || (r =? VpLastSegment) || (r =? VpOctetStream)
  || (r =? VpNoSegmentation) || (r =? VpStartingSegment).

Definition should_have_fhp (r : Z) (truncated : bool) (ft : option ftype) : bool :=
  match ft with
  | Some FtVariable => false
  | _ => negb truncated && cnstr_rules_for_fp r
  end.

Definition verify_frame_type (r : Z) (ft : ftype) : bool :=
  match ft with FtFixed => cnstr_rules_for_fp r | FtVariable => cnstr_rules_for_vp r end.

Definition tfdf_pack (t : tfdf) (truncated : bool) (ft : option ftype) : res bytes :=
  do p <- ba_append [] (Z.lor (Z.shiftl (rules t) 5) (ident t));
  let ft' := match ft with
             | Some f => Some f
             | None => if cnstr_rules_for_fp (rules t) then Some FtFixed
                       else if cnstr_rules_for_vp (rules t) then Some FtVariable else None
             end in
  if should_have_fhp (rules t) truncated ft' then
    match fhp t with
    | None => Err EFhpMissing
    | Some v => do w <- struct_pack 2 v; Ok (p ++ w ++ tfdz t)
    end
  else Ok (p ++ tfdz t).

Definition tfdf_unpack (raw : bytes) (truncated : bool) (exact_len : Z) (ft : option ftype)
  : res tfdf :=
  if len raw <? 1 then Err EInvalidLen else
  do r0 <- py_get raw 0;
  let r := Z.land (Z.shiftr r0 5) 7 in
  let i := Z.land r0 31 in
  if (match ft with Some f => negb (verify_frame_type r f) | None => false end)
  then Err EInvalidConstrRules else
  do ps <- (if should_have_fhp r truncated ft then
              if (len raw <? 3) || (exact_len <? 3) then Err EInvalidLen else
              do r1 <- py_get raw 1; do r2 <- py_get raw 2;
              Ok (Some (Z.lor (Z.shiftl r1 8) r2), 3)
            else Ok (None, 1));
  let '(f, start) := ps in
  Ok (tfdf_set_tfdz {| rules := r; ident := i; fhp := f; tfdz := []; tsize := 1 |}
                    (py_slice raw start exact_len)).

(* ---- TransferFrame ---- *)
Inductive fhdr := HTrunc (b : hbase) | HPrim (h : phdr).

Record frame := {
  hdr : fhdr; ftfdf : tfdf;
  izone : option bytes; ocf : option bytes; fecf : option bytes }.

Definition hdr_pack (h : fhdr) : res bytes :=
  match h with HTrunc b => thdr_pack b | HPrim p => phdr_pack p end.
Definition hdr_len (h : fhdr) : Z :=
  match h with HTrunc b => thdr_len b | HPrim p => phdr_len p end.
Definition hdr_truncated (h : fhdr) : bool :=
  match h with HTrunc _ => true | HPrim _ => false end.
(* header.op_ctrl_flag : TruncatedPrimaryHeader has no such attribute *)
Definition hdr_ocf_flag (h : fhdr) : res Z :=
  match h with HTrunc _ => Err EAttribute | HPrim p => Ok (ocf_flag p) end.

Definition opt_len (o : option bytes) : Z := match o with None => 0 | Some b => len b end.
Definition opt_app (p : bytes) (o : option bytes) : bytes :=
  match o with None => p | Some b => p ++ b end.

Definition frame_pack (f : frame) (truncated : bool) (ft : option ftype) : res bytes :=
  do h <- hdr_pack (hdr f);
  let fr := opt_app h (izone f) in
  do t <- tfdf_pack (ftfdf f) truncated ft;
  let fr := fr ++ t in
  do fr <- (match ocf f with
            | Some (x :: o) =>          (* `if self.op_ctrl_field:` non-empty *)
                do flag <- hdr_ocf_flag (hdr f);
                if flag =? 0 then Err EInvalidFrameHeader else
                if negb (len (x :: o) =? 4) then Err EValue else Ok (fr ++ x :: o)
            | _ =>
                if negb truncated then
                  do flag <- hdr_ocf_flag (hdr f);
                  if negb (flag =? 0) then Err EInvalidFrameHeader else Ok fr
                else Ok fr
            end);
  Ok (opt_app fr (fecf f)).

Definition frame_len_of (f : frame) : Z :=
  hdr_len (hdr f) + tfdf_len (ftfdf f) + opt_len (izone f) + opt_len (ocf f) + opt_len (fecf f).

Definition set_frame_len_in_header (f : frame) : frame :=
  match hdr f with
  | HTrunc _ => f
  | HPrim p =>
      {| hdr := HPrim {| pbase := pbase p; frame_len := frame_len_of f - 1; bypass := bypass p;
                         prot := prot p; ocf_flag := ocf_flag p; vcf_len := vcf_len p;
                         vcf_count := vcf_count p |};
         ftfdf := ftfdf f; izone := izone f; ocf := ocf f; fecf := fecf f |}
  end.

Definition frame_set_tfdz (f : frame) (d : bytes) : frame :=
  {| hdr := hdr f; ftfdf := tfdf_set_tfdz (ftfdf f) d; izone := izone f; ocf := ocf f;
     fecf := fecf f |}.

(* __get_tfdf_len *)
Definition get_tfdf_len (ft : ftype) (h : fhdr) (raw_frame_len : Z) (p : fprops) : res Z :=
  let header_len := hdr_len h in
  do e <- (match ft with
           | FtFixed =>
               match h with
               | HPrim ph =>
                   let e := frame_len ph + 1 - header_len in
                   if raw_frame_len <? e then Err EInvalidLen else Ok e
               | HTrunc _ => Err EAttribute          (* unreachable: refused before *)
               end
           | FtVariable =>
               match h with
               | HTrunc _ => if p_fixed p then Err EAttribute   (* no truncated_frame_len *)
                             else Ok (p_len p - header_len)
               | HPrim ph => Ok (frame_len ph + 1 - header_len)
               end
           end);
  let e := if fecf_present p then e - fecf_size p else e in
  let e := match h with
           | HPrim ph => if negb (ocf_flag ph =? 0) then e - 4 else e
           | HTrunc _ => e
           end in
  let e := if iz_present p then e - iz_size p else e in
  Ok e.

Definition frame_unpack (raw : bytes) (ft : ftype) (p : fprops) : res frame :=
  if len raw <? 4 then Err EInvalidLen else
  do _ <- (match ft with
           | FtFixed => if negb (p_fixed p) then Err EValue else
                        if len raw <? p_len p then Err EInvalidLen else Ok tt
           | FtVariable => Ok tt
           end);
  do ht <- determine_header_type raw;
  do h <- (if ht =? HT_TRUNCATED then
             match ft with
             | FtVariable => if p_fixed p then Err EValue else   (* not a VarFrameProperties *)
                             do b <- thdr_unpack raw USLP_VERSION_NUMBER; Ok (HTrunc b)
             | FtFixed => Err ETruncatedNotAllowed
             end
           else do ph <- phdr_unpack raw USLP_VERSION_NUMBER; Ok (HPrim ph));
  let header_len := hdr_len h in
  do _ <- (match ft, h with
           | FtFixed, HPrim ph =>
               if negb (frame_len ph + 1 =? p_len p) then Err EInvalidLen else Ok tt
           | FtFixed, HTrunc _ => Err EAttribute     (* unreachable *)
           | FtVariable, _ => Ok tt
           end);
  do expected_frame_len <- (match h with
                            | HTrunc _ => if p_fixed p then Err EAttribute   (* unreachable *)
                                          else Ok (p_len p)
                            | HPrim ph => Ok (frame_len ph + 1)
                            end);
  if len raw <? expected_frame_len then Err EInvalidLen else
  do e <- get_tfdf_len ft h (len raw) p;
  if (e <=? 0) || (header_len + e >? len raw) then Err EInvalidLen else
  do zc <- (if iz_present p then
              if header_len + iz_size p + e >? len raw then Err EInvalidLen else
              Ok (Some (py_slice raw header_len (header_len + iz_size p)),
                  header_len + iz_size p)
            else Ok (None, header_len));
  let '(iz, cur) := zc in
  do t <- tfdf_unpack (py_slice_from raw cur) (hdr_truncated h) e (Some ft);
  let cur := cur + e in
  let '(oc, cur) := match h with
                    | HPrim ph => if negb (ocf_flag ph =? 0)
                                  then (Some (py_slice raw cur (cur + 4)), cur + 4)
                                  else (None, cur)
                    | HTrunc _ => (None, cur)
                    end in
  let fe := if fecf_present p then Some (py_slice raw cur (cur + fecf_size p)) else None in
  Ok {| hdr := h; ftfdf := t; izone := iz; ocf := oc; fecf := fe |}.

(* ---- histories (C11): the documented mutators and observers ---- *)
Inductive fop := OpSetTfdz (d : bytes) | OpSetFrameLen | OpPack | OpLen.

Definition frame_apply (f : frame) (o : fop) : frame :=
  match o with
  | OpSetTfdz d => frame_set_tfdz f d
  | OpSetFrameLen => set_frame_len_in_header f
  | _ => f
  end.
