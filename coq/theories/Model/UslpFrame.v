(* Model of spacepackets/uslp/frame.py (managed-parameter classes,
   TransferFrameDataField, TransferFrame).  Definitions only. *)
From Coq Require Import ZArith List Bool.
From SP Require Import Base.Result Base.Bytes Model.UslpHeader.
Import ListNotations.
Open Scope Z_scope.

Definition USLP_TFDF_MAX_SIZE : Z := 65529.

(* TfdzConstructionRules *)
Definition FpPacketSpanningMultipleFrames : Z := 0.
Definition FpFixedStartOfMapaSDU : Z := 1.
Definition FpContinuingPortionOfMapaSDU : Z := 2.
Definition VpOctetStream : Z := 3.
Definition VpStartingSegment : Z := 4.
Definition VpContinuingSegment : Z := 5.
Definition VpLastSegment : Z := 6.
Definition VpNoSegmentation : Z := 7.

(* FrameType *)
Inductive ftype := FtFixed | FtVariable.
Definition FT_FIXED : Z := 0.
Definition FT_VARIABLE : Z := 1.

(* Python slices with arbitrary (also negative) integer bounds: d[a:b], d[a:] *)
Definition norm_idx (n i : Z) : Z := if i <? 0 then Z.max 0 (i + n) else Z.min i n.
Definition py_slice (d : bytes) (a b : Z) : bytes :=
  slice d (norm_idx (len d) a) (norm_idx (len d) b).
Definition py_slice_from (d : bytes) (a : Z) : bytes := slice_from d (norm_idx (len d) a).

(* ---- FramePropertiesBase / FixedFrameProperties / VarFrameProperties ----
   is_fixed distinguishes the two classes; size_or_len is fixed_len resp.
   truncated_frame_len.  The constructor refuses present-without-size, so a size
   is only ever read when it exists; absent sizes are stored as 0. *)
Record fprops := {
  p_fixed : bool; p_len : Z;
  iz_present : bool; iz_size : Z;
  fecf_present : bool; fecf_size : Z }.

Definition props_new (is_fixed : bool) (size_or_len : Z) (has_iz has_fecf : bool)
           (iz_len fecf_len : option Z) : res fprops :=
  if has_iz && (match iz_len with None => true | _ => false end) then Err EValue else
  if has_fecf && (match fecf_len with None => true | _ => false end) then Err EValue else
  Ok {| p_fixed := is_fixed; p_len := size_or_len;
        iz_present := has_iz; iz_size := match iz_len with Some s => s | None => 0 end;
        fecf_present := has_fecf; fecf_size := match fecf_len with Some s => s | None => 0 end |}.

(* ---- TransferFrameDataField ---- *)
Record tfdf := { rules : Z; ident : Z; fhp : option Z; tfdz : bytes; tsize : Z }.

Definition tfdf_header_len (fhp : option Z) : Z := match fhp with None => 1 | Some _ => 3 end.

(* the tfdz property setter *)
Definition tfdf_set_tfdz (t : tfdf) (d : bytes) : tfdf :=
  {| rules := rules t; ident := ident t; fhp := fhp t; tfdz := d;
     tsize := tfdf_header_len (fhp t) + len d |}.

Definition tfdf_len (t : tfdf) : Z := tsize t.

Definition tfdf_new (r i : Z) (d : bytes) (f : option Z) : res tfdf :=
  let t := tfdf_set_tfdz {| rules := r; ident := i; fhp := f; tfdz := []; tsize := 0 |} d in
  let allowed_max_len := USLP_TFDF_MAX_SIZE - tfdf_header_len f in
  if tfdf_len t >? allowed_max_len then Err EValue else Ok t.

Definition cnstr_rules_for_fp (r : Z) : bool :=
  (r =? FpPacketSpanningMultipleFrames) || (r =? FpContinuingPortionOfMapaSDU)
  || (r =? FpFixedStartOfMapaSDU).
Definition cnstr_rules_for_vp (r : Z) : bool :=
  (r =? VpContinuingSegment) || (r =? VpLastSegment) || (r =? VpOctetStream)
  || (r =? VpNoSegmentation) || (r =? VpStartingSegment).

Definition should_have_fhp (r : Z) (truncated : bool) (ft : option ftype) : bool :=
  match ft with
  | Some FtVariable => false
  | _ => negb truncated && cnstr_rules_for_fp r
  end.

Definition verify_frame_type (r : Z) (ft : ftype) : bool :=
  match ft with FtFixed => cnstr_rules_for_fp r | FtVariable => cnstr_rules_for_vp r end.

Definition tfdf_pack (t : tfdf) (truncated : bool) (ft : option ftype) : res bytes :=
  do p <- ba_append [] (Z.lor (Z.shiftl (rules t) 5) (ident t));
  let ft' := match ft with
             | Some f => Some f
             | None => if cnstr_rules_for_fp (rules t) then Some FtFixed
                       else if cnstr_rules_for_vp (rules t) then Some FtVariable else None
             end in
  if should_have_fhp (rules t) truncated ft' then
    match fhp t with
    | None => Err EFhpMissing
    | Some v => do w <- struct_pack 2 v; Ok (p ++ w ++ tfdz t)
    end
  else Ok (p ++ tfdz t).

Definition tfdf_unpack (raw : bytes) (truncated : bool) (exact_len : Z) (ft : option ftype)
  : res tfdf :=
  if len raw <? 1 then Err EInvalidLen else
  do r0 <- py_get raw 0;
  let r := Z.land (Z.shiftr r0 5) 7 in
  let i := Z.land r0 31 in
  if (match ft with Some f => negb (verify_frame_type r f) | None => false end)
  then Err EInvalidConstrRules else
  do ps <- (if should_have_fhp r truncated ft then
              if (len raw <? 3) || (exact_len <? 3) then Err EInvalidLen else
              do r1 <- py_get raw 1; do r2 <- py_get raw 2;
              Ok (Some (Z.lor (Z.shiftl r1 8) r2), 3)
            else Ok (None, 1));
  let '(f, start) := ps in
  Ok (tfdf_set_tfdz {| rules := r; ident := i; fhp := f; tfdz := []; tsize := 1 |}
                    (py_slice raw start exact_len)).

(* ---- TransferFrame ---- *)
Inductive fhdr := HTrunc (b : hbase) | HPrim (h : phdr).

Record frame := {
  hdr : fhdr; ftfdf : tfdf;
  izone : option bytes; ocf : option bytes; fecf : option bytes }.

Definition hdr_pack (h : fhdr) : res bytes :=
  match h with HTrunc b => thdr_pack b | HPrim p => phdr_pack p end.
Definition hdr_len (h : fhdr) : Z :=
  match h with HTrunc b => thdr_len b | HPrim p => phdr_len p end.
Definition hdr_truncated (h : fhdr) : bool :=
  match h with HTrunc _ => true | HPrim _ => false end.
(* header.op_ctrl_flag : TruncatedPrimaryHeader has no such attribute *)
Definition hdr_ocf_flag (h : fhdr) : res Z :=
  match h with HTrunc _ => Err EAttribute | HPrim p => Ok (ocf_flag p) end.

Definition opt_len (o : option bytes) : Z := match o with None => 0 | Some b => len b end.
Definition opt_app (p : bytes) (o : option bytes) : bytes :=
  match o with None => p | Some b => p ++ b end.

Definition frame_pack (f : frame) (truncated : bool) (ft : option ftype) : res bytes :=
  do h <- hdr_pack (hdr f);
  let fr := opt_app h (izone f) in
  do t <- tfdf_pack (ftfdf f) truncated ft;
  let fr := fr ++ t in
  do fr <- (match ocf f with
            | Some (x :: o) =>          (* `if self.op_ctrl_field:` non-empty *)
                do flag <- hdr_ocf_flag (hdr f);
                if flag =? 0 then Err EInvalidFrameHeader else
                if negb (len (x :: o) =? 4) then Err EValue else Ok (fr ++ x :: o)
            | _ =>
                if negb truncated then
                  do flag <- hdr_ocf_flag (hdr f);
                  if negb (flag =? 0) then Err EInvalidFrameHeader else Ok fr
                else Ok fr
            end);
  Ok (opt_app fr (fecf f)).

Definition frame_len_of (f : frame) : Z :=
  hdr_len (hdr f) + tfdf_len (ftfdf f) + opt_len (izone f) + opt_len (ocf f) + opt_len (fecf f).

Definition set_frame_len_in_header (f : frame) : frame :=
  match hdr f with
  | HTrunc _ => f
  | HPrim p =>
      {| hdr := HPrim {| pbase := pbase p; frame_len := frame_len_of f - 1; bypass := bypass p;
                         prot := prot p; ocf_flag := ocf_flag p; vcf_len := vcf_len p;
                         vcf_count := vcf_count p |};
         ftfdf := ftfdf f; izone := izone f; ocf := ocf f; fecf := fecf f |}
  end.

Definition frame_set_tfdz (f : frame) (d : bytes) : frame :=
  {| hdr := hdr f; ftfdf := tfdf_set_tfdz (ftfdf f) d; izone := izone f; ocf := ocf f;
     fecf := fecf f |}.

(* __get_tfdf_len *)
Definition get_tfdf_len (ft : ftype) (h : fhdr) (raw_frame_len : Z) (p : fprops) : res Z :=
  let header_len := hdr_len h in
  do e <- (match ft with
           | FtFixed =>
               match h with
               | HPrim ph =>
                   let e := frame_len ph + 1 - header_len in
                   if raw_frame_len <? e then Err EInvalidLen else Ok e
               | HTrunc _ => Err EAttribute          (* unreachable: refused before *)
               end
           | FtVariable =>
               match h with
               | HTrunc _ => if p_fixed p then Err EAttribute   (* no truncated_frame_len *)
                             else Ok (p_len p - header_len)
               | HPrim ph => Ok (frame_len ph + 1 - header_len)
               end
           end);
  let e := if fecf_present p then e - fecf_size p else e in
  let e := match h with
           | HPrim ph => if negb (ocf_flag ph =? 0) then e - 4 else e
           | HTrunc _ => e
           end in
  let e := if iz_present p then e - iz_size p else e in
  Ok e.

Definition frame_unpack (raw : bytes) (ft : ftype) (p : fprops) : res frame :=
  if len raw <? 4 then Err EInvalidLen else
  do _ <- (match ft with
           | FtFixed => if negb (p_fixed p) then Err EValue else
                        if len raw <? p_len p then Err EInvalidLen else Ok tt
           | FtVariable => Ok tt
           end);
  do ht <- determine_header_type raw;
  do h <- (if ht =? HT_TRUNCATED then
             match ft with
             | FtVariable => if p_fixed p then Err EValue else   (* not a VarFrameProperties *)
                             do b <- thdr_unpack raw USLP_VERSION_NUMBER; Ok (HTrunc b)
             | FtFixed => Err ETruncatedNotAllowed
             end
           else do ph <- phdr_unpack raw USLP_VERSION_NUMBER; Ok (HPrim ph));
  let header_len := hdr_len h in
  do _ <- (match ft, h with
           | FtFixed, HPrim ph =>
               if negb (frame_len ph + 1 =? p_len p) then Err EInvalidLen else Ok tt
           | FtFixed, HTrunc _ => Err EAttribute     (* unreachable *)
           | FtVariable, _ => Ok tt
           end);
  do expected_frame_len <- (match h with
                            | HTrunc _ => if p_fixed p then Err EAttribute   (* unreachable *)
                                          else Ok (p_len p)
                            | HPrim ph => Ok (frame_len ph + 1)
                            end);
  if len raw <? expected_frame_len then Err EInvalidLen else
  do e <- get_tfdf_len ft h (len raw) p;
  if (e <=? 0) || (header_len + e >? len raw) then Err EInvalidLen else
  do zc <- (if iz_present p then
              if header_len + iz_size p + e >? len raw then Err EInvalidLen else
              Ok (Some (py_slice raw header_len (header_len + iz_size p)),
                  header_len + iz_size p)
            else Ok (None, header_len));
  let '(iz, cur) := zc in
  do t <- tfdf_unpack (py_slice_from raw cur) (hdr_truncated h) e (Some ft);
  let cur := cur + e in
  let '(oc, cur) := match h with
                    | HPrim ph => if negb (ocf_flag ph =? 0)
                                  then (Some (py_slice raw cur (cur + 4)), cur + 4)
                                  else (None, cur)
                    | HTrunc _ => (None, cur)
                    end in
  let fe := if fecf_present p then Some (py_slice raw cur (cur + fecf_size p)) else None in
  Ok {| hdr := h; ftfdf := t; izone := iz; ocf := oc; fecf := fe |}.

(* ---- histories (C11): the documented mutators and observers ---- *)
Inductive fop := OpSetTfdz (d : bytes) | OpSetFrameLen | OpPack | OpLen.

Definition frame_apply (f : frame) (o : fop) : frame :=
  match o with
  | OpSetTfdz d => frame_set_tfdz f d
  | OpSetFrameLen => set_frame_len_in_header f
  | _ => f
  end.

(* ---- wider histories (C17 / C11 hardening): every public attribute of the frame, of its
   header and of its data field assigned directly, parts replaced, the decoded object used
   again.  None of these assignments recomputes a cached size except the tfdz setter. ---- *)
Definition opt_present {A} (o : option A) : bool := match o with Some _ => true | None => false end.

(* header.<attribute k> = v ; k = 0 scid, 1 src_dest, 2 vcid, 3 map_id (both header kinds),
   4 frame_len, 5 bypass_seq_ctrl_flag, 6 prot_ctrl_cmd_flag, 7 op_ctrl_flag, 8 vcf_count_len
   (primary header only) *)
Definition hbase_set (b : hbase) (k v : Z) : hbase :=
  {| scid := if k =? 0 then v else scid b; src_dest := if k =? 1 then v else src_dest b;
     vcid := if k =? 2 then v else vcid b; map_id := if k =? 3 then v else map_id b |}.
Definition phdr_set (h : phdr) (k v : Z) : phdr :=
  {| pbase := hbase_set (pbase h) k v;
     frame_len := if k =? 4 then v else frame_len h;
     bypass := if k =? 5 then v else bypass h;
     prot := if k =? 6 then v else prot h;
     ocf_flag := if k =? 7 then v else ocf_flag h;
     vcf_len := if k =? 8 then v else vcf_len h;
     vcf_count := vcf_count h |}.
Definition phdr_set_count (h : phdr) (c : option Z) : phdr :=
  {| pbase := pbase h; frame_len := frame_len h; bypass := bypass h; prot := prot h;
     ocf_flag := ocf_flag h; vcf_len := vcf_len h; vcf_count := c |}.
Definition fhdr_set (h : fhdr) (k v : Z) : fhdr :=
  match h with
  | HTrunc b => HTrunc (hbase_set b k v)
  | HPrim p => HPrim (phdr_set p k v)
  end.
Definition fhdr_set_count (h : fhdr) (c : option Z) : fhdr :=
  match h with HTrunc b => HTrunc b | HPrim p => HPrim (phdr_set_count p c) end.

Inductive fop2 :=
| O2Base (o : fop)
| O2SetIz (z : option bytes) | O2SetOcf (z : option bytes) | O2SetFecf (z : option bytes)
| O2Hdr (k v : Z) | O2VcfCount (c : option Z)
| O2SetFhp (p : option Z)          (* tfdf.fhp_or_lvop = p : the cached size is left alone *)
| O2SetRules (r : Z) | O2SetIdent (i : Z)
| O2NewTfdf (r i : Z) (d : bytes) (p : option Z)   (* frame.tfdf = TransferFrameDataField(..) *)
| O2Redecode                        (* frame = unpack(pack(frame)) under matching parameters *)
| O2Roundtrip.                      (* observe unpack(pack(frame)), keep the object *)

Definition with_tfdf (f : frame) (t : tfdf) : frame :=
  {| hdr := hdr f; ftfdf := t; izone := izone f; ocf := ocf f; fecf := fecf f |}.
Definition with_hdr (f : frame) (h : fhdr) : frame :=
  {| hdr := h; ftfdf := ftfdf f; izone := izone f; ocf := ocf f; fecf := fecf f |}.

(* pack, then decode the octets (followed by two foreign octets) with the managed parameters
   that match the object: frame type by the construction rule's family, fixed / truncated length
   = packed size, insert zone and FECF present with their sizes exactly when the object has them *)
Definition frame_roundtrip (f : frame) (truncated : bool) (ft : option ftype) : res frame :=
  do raw <- frame_pack f truncated ft;
  let fixed := cnstr_rules_for_fp (rules (ftfdf f)) in
  do p <- props_new fixed (len raw) (opt_present (izone f)) (opt_present (fecf f))
            (match izone f with Some z => Some (len z) | None => None end)
            (match fecf f with Some z => Some (len z) | None => None end);
  frame_unpack (raw ++ [165; 90]) (if fixed then FtFixed else FtVariable) p.

Definition frame_apply2 (f : frame) (truncated : bool) (ft : option ftype) (o : fop2) : res frame :=
  match o with
  | O2Base b => Ok (frame_apply f b)
  | O2SetIz z => Ok {| hdr := hdr f; ftfdf := ftfdf f; izone := z; ocf := ocf f; fecf := fecf f |}
  | O2SetOcf z => Ok {| hdr := hdr f; ftfdf := ftfdf f; izone := izone f; ocf := z; fecf := fecf f |}
  | O2SetFecf z => Ok {| hdr := hdr f; ftfdf := ftfdf f; izone := izone f; ocf := ocf f; fecf := z |}
  | O2Hdr k v => Ok (with_hdr f (fhdr_set (hdr f) k v))
  | O2VcfCount c => Ok (with_hdr f (fhdr_set_count (hdr f) c))
  | O2SetFhp p => let t := ftfdf f in
      Ok (with_tfdf f {| rules := rules t; ident := ident t; fhp := p; tfdz := tfdz t; tsize := tsize t |})
  | O2SetRules r => let t := ftfdf f in
      Ok (with_tfdf f {| rules := r; ident := ident t; fhp := fhp t; tfdz := tfdz t; tsize := tsize t |})
  | O2SetIdent i => let t := ftfdf f in
      Ok (with_tfdf f {| rules := rules t; ident := i; fhp := fhp t; tfdz := tfdz t; tsize := tsize t |})
  | O2NewTfdf r i d p => do t <- tfdf_new r i d p; Ok (with_tfdf f t)
  | O2Redecode => frame_roundtrip f truncated ft
  | O2Roundtrip => Ok f
  end.

(* ---- header objects on their own: attribute assignments, pack, len ---- *)
Inductive hop := HSet (k v : Z) | HCount (c : option Z) | HPack | HLen | HObserve.
Definition hdr_apply (h : fhdr) (o : hop) : fhdr :=
  match o with
  | HSet k v => fhdr_set h k v
  | HCount c => fhdr_set_count h c
  | _ => h
  end.
