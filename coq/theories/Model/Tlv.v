(* Model of spacepackets/cfdp/tlv/{defs,base,tlv,holder}.py and of the class
   MessageToUserTlv of tlv/msg_to_user.py (constructor, pack, unpack, from_tlv).
   Definitions only.  File names (Python str) are represented by their UTF-8 octets. *)
From Coq Require Import ZArith List Bool.
From SP Require Import Base.Result Base.Bytes Base.Utf8 Model.Lv.
Import ListNotations.
Open Scope Z_scope.

(* ---- defs.py : TlvType ---- *)
Definition TLV_FILESTORE_REQUEST : Z := 0.
Definition TLV_FILESTORE_RESPONSE : Z := 1.
Definition TLV_MESSAGE_TO_USER : Z := 2.
Definition TLV_FAULT_HANDLER : Z := 4.
Definition TLV_FLOW_LABEL : Z := 5.
Definition TLV_ENTITY_ID : Z := 6.
Definition tlv_types : list Z :=
  [TLV_FILESTORE_REQUEST; TLV_FILESTORE_RESPONSE; TLV_MESSAGE_TO_USER;
   TLV_FAULT_HANDLER; TLV_FLOW_LABEL; TLV_ENTITY_ID].
Definition memz (x : Z) (l : list Z) : bool := existsb (Z.eqb x) l.
Definition is_tlv_type (x : Z) : bool := memz x tlv_types.
(* TlvType(x) *)
Definition tlv_type_of_int (x : Z) : res Z := if is_tlv_type x then Ok x else Err EValue.

(* ---- defs.py : FilestoreActionCode ---- *)
Definition FA_CREATE_FILE : Z := 0.
Definition FA_DELETE_FILE : Z := 1.
Definition FA_RENAME_FILE : Z := 2.
Definition FA_APPEND_FILE : Z := 3.
Definition FA_REPLACE_FILE : Z := 4.
Definition FA_CREATE_DIR : Z := 5.
Definition FA_REMOVE_DIR : Z := 6.
Definition FA_DENY_FILE : Z := 7.
Definition FA_DENY_DIR : Z := 8.
Definition fs_actions : list Z :=
  [FA_CREATE_FILE; FA_DELETE_FILE; FA_RENAME_FILE; FA_APPEND_FILE; FA_REPLACE_FILE;
   FA_CREATE_DIR; FA_REMOVE_DIR; FA_DENY_FILE; FA_DENY_DIR].
Definition is_fs_action (x : Z) : bool := memz x fs_actions.
Definition fs_action_of_int (x : Z) : res Z := if is_fs_action x then Ok x else Err EValue.

(* `action_code in [REPLACE_FILE_SNP, RENAME_FILE_SNP, APPEND_FILE_SNP]` *)
Definition is_two_name (a : Z) : bool :=
  (a =? FA_REPLACE_FILE) || (a =? FA_RENAME_FILE) || (a =? FA_APPEND_FILE).

(* ---- defs.py : FilestoreResponseStatusCode (all distinct values) ---- *)
Definition FS_INVALID : Z := -1.
Definition fs_status_codes : list Z :=
  [ 0; 1; 2; 15;                  (* create: success, not allowed, (generic 0b0010), not performed *)
    16; 17; 31;                   (* delete *)
    32; 33; 34; 35; 47;           (* rename *)
    48; 49; 50; 51; 63;           (* append *)
    64; 65; 66; 67; 79;           (* replace *)
    80; 81; 95;                   (* create dir *)
    96; 97; 98; 111;              (* remove dir *)
    112; 114; 127;                (* deny file *)
    128; 130; 143;                (* deny dir *)
    FS_INVALID ].
Definition is_fs_status (x : Z) : bool := memz x fs_status_codes.
Definition fs_status_of_int (x : Z) : res Z := if is_fs_status x then Ok x else Err EValue.

(* ---- tlv.py : status-code mapping helpers ---- *)
Definition map_enum_status_code_to_int (sc : Z) : Z := Z.land sc 15.
Definition map_enum_status_code_to_action_status_code (sc : Z) : res (Z * Z) :=
  do a <- fs_action_of_int (Z.shiftr (Z.land sc 240) 4);
  Ok (a, Z.land sc 15).
Definition map_int_status_code_to_enum (action status : Z) : Z :=
  match fs_status_of_int (Z.lor (Z.shiftl action 4) status) with
  | Ok s => s
  | Err _ => FS_INVALID
  end.

(* ---- tlv.py : CfdpTlv ---- *)
Definition TLV_MINIMAL_LEN : Z := 2.
Record tlv := { tlv_type : Z; tlv_value : bytes }.

Definition tlv_new (ty : Z) (value : bytes) : res tlv :=
  if len value >? 255 then Err EValue else Ok {| tlv_type := ty; tlv_value := value |}.

Definition tlv_pack (t : tlv) : res bytes :=
  do a <- ba_append [] (tlv_type t);
  do b <- ba_append a (len (tlv_value t));
  Ok (b ++ tlv_value t).

Definition tlv_packet_len (t : tlv) : Z := 2 + len (tlv_value t).

Definition tlv_unpack (data : bytes) : res tlv :=
  if len data <? 2 then Err ETooShort else
  do d0 <- py_get data 0;
  do ty <- tlv_type_of_int d0;
  do length <- py_get data 1;
  if 2 + length >? len data then Err ETooShort else
  tlv_new ty (slice data 2 (2 + length)).

(* AbstractTlvBase.__eq__ (both operands TLV objects) *)
Definition tlv_eqb (a b : tlv) : bool :=
  (tlv_type a =? tlv_type b) && bytes_eqb (tlv_value a) (tlv_value b).

(* AbstractTlvBase.check_type *)
Definition check_type (self_tlv_type arg : Z) : res unit :=
  if negb (self_tlv_type =? arg) then Err ETlvMismatch else Ok tt.

(* ---- simple wrappers: EntityIdTlv, FlowLabelTlv, MessageToUserTlv ----
   object = the wrapped CfdpTlv; the tlv_type property is the class constant. *)
Definition wrap_new (cls_type : Z) (value : bytes) : res tlv := tlv_new cls_type value.

Definition wrap_from_tlv (cls_type : Z) (t : tlv) : res tlv :=
  if negb (tlv_type t =? cls_type) then Err ETlvMismatch else Ok t.

(* <Class>.unpack: CfdpTlv.unpack, then `tlv.tlv_type != cls.TLV_TYPE` -> TlvTypeMissmatch *)
Definition wrap_unpack (cls_type : Z) (data : bytes) : res tlv :=
  do t <- tlv_unpack data;
  if negb (tlv_type t =? cls_type) then Err ETlvMismatch else Ok t.
Definition entity_unpack := wrap_unpack TLV_ENTITY_ID.
Definition msg_unpack := wrap_unpack TLV_MESSAGE_TO_USER.
Definition flow_unpack := wrap_unpack TLV_FLOW_LABEL.

Definition entity_new := wrap_new TLV_ENTITY_ID.
Definition flow_new := wrap_new TLV_FLOW_LABEL.
Definition msg_new := wrap_new TLV_MESSAGE_TO_USER.
Definition entity_from_tlv := wrap_from_tlv TLV_ENTITY_ID.
Definition flow_from_tlv := wrap_from_tlv TLV_FLOW_LABEL.
Definition msg_from_tlv := wrap_from_tlv TLV_MESSAGE_TO_USER.

(* EntityIdTlv.__eq__ (other an EntityIdTlv):
   int.from_bytes(self.value, "big") == int.from_bytes(other.value, "big"); never raises
   (result type kept as `res bool` for the callers) *)
Definition entity_eqb (a b : tlv) : res bool :=
  Ok (be_decode (tlv_value a) =? be_decode (tlv_value b)).

(* ---- FaultHandlerOverrideTlv ---- *)
Record fault_tlv := { fh_cc : Z; fh_hc : Z; fh_tlv : tlv }.

Definition fault_new (cc hc : Z) : res fault_tlv :=
  let b := Z.lor (Z.shiftl cc 4) hc in
  if is_byte b then                                   (* bytes([..]) : ValueError *)
    do t <- tlv_new TLV_FAULT_HANDLER [b];
    Ok {| fh_cc := cc; fh_hc := hc; fh_tlv := t |}
  else Err EValue.

Definition fault_unpack (data : bytes) : res fault_tlv :=
  do t <- tlv_unpack data;
  if negb (tlv_type t =? TLV_FAULT_HANDLER) then Err ETlvMismatch else
  if len (tlv_value t) <? 1 then Err ETooShort else
  do v0 <- py_get (tlv_value t) 0;
  Ok {| fh_cc := Z.shiftr (Z.land v0 240) 4; fh_hc := Z.land v0 15; fh_tlv := t |}.

Definition fault_from_tlv (t : tlv) : res fault_tlv :=
  if negb (tlv_type t =? TLV_FAULT_HANDLER) then Err ETlvMismatch else
  if len (tlv_value t) <? 1 then Err ETooShort else
  do v0 <- py_get (tlv_value t) 0;
  Ok {| fh_cc := Z.land (Z.shiftr v0 4) 15; fh_hc := Z.land v0 15; fh_tlv := t |}.

(* ---- FileStoreRequestBase ---- *)
Definition common_packer (action status : Z) (first second : bytes) : res bytes :=
  do b0 <- ba_append [] (Z.lor (Z.shiftl action 4) status);
  do l1 <- lv_new first;
  let v := b0 ++ lv_pack l1 in
  if is_two_name action then
    do l2 <- lv_new second; Ok (v ++ lv_pack l2)
  else Ok v.

(* len(name.encode()) *)
Definition common_packet_len (action : Z) (first second : bytes) : Z :=
  3 + len first + 1 + (if is_two_name action then len second + 1 else 0).

(* _check_raw_tlv_field (static helper, no longer used by unpack) *)
Definition check_raw_tlv_field (first_byte expected : Z) : res unit :=
  do t <- tlv_type_of_int first_byte;
  if negb (t =? expected) then Err ETlvMismatch else Ok tt.

(* (action code, first name, status nibble, index after the names, second name) *)
Definition common_unpacker (raw : bytes) : res (Z * bytes * Z * Z * option bytes) :=
  if len raw <? 1 then Err ETooShort else
  do r0 <- py_get raw 0;
  do action <- fs_action_of_int (Z.land (Z.shiftr r0 4) 15);
  let status := Z.land r0 15 in
  do l1 <- lv_unpack (slice_from raw 1);
  let idx := 1 + lv_packet_len l1 in
  do n1 <- utf8_decode l1;
  if is_two_name action then
    do l2 <- lv_unpack (slice_from raw idx);
    do n2 <- utf8_decode l2;
    Ok (action, n1, status, idx + lv_packet_len l2, Some n2)
  else Ok (action, n1, status, idx, None).

(* ---- FileStoreRequestTlv ---- *)
Record fsreq := { fq_action : Z; fq_first : bytes; fq_second : bytes }.

Definition fsreq_build_tlv (r : fsreq) : res tlv :=
  do v <- common_packer (fq_action r) 0 (fq_first r) (fq_second r);
  tlv_new TLV_FILESTORE_REQUEST v.
Definition fsreq_pack (r : fsreq) : res bytes := do t <- fsreq_build_tlv r; tlv_pack t.
Definition fsreq_value (r : fsreq) : res bytes := do t <- fsreq_build_tlv r; Ok (tlv_value t).
Definition fsreq_packet_len (r : fsreq) : Z :=
  common_packet_len (fq_action r) (fq_first r) (fq_second r).

Definition fsreq_set_fields (raw : bytes) : res fsreq :=
  do p <- common_unpacker raw;
  let '(a, n1, _, idx, n2) := p in
  if negb (idx =? len raw) then Err EValue else
  Ok {| fq_action := a; fq_first := n1;
        fq_second := match n2 with Some s => s | None => [] end |}.

Definition fsreq_from_tlv (t : tlv) : res fsreq :=
  if negb (tlv_type t =? TLV_FILESTORE_REQUEST) then Err ETlvMismatch
  else fsreq_set_fields (tlv_value t).

Definition fsreq_unpack (data : bytes) : res fsreq :=
  do t <- tlv_unpack data; fsreq_from_tlv t.

(* ---- FileStoreResponseTlv ---- *)
Record fsresp := { fp_action : Z; fp_status : Z; fp_first : bytes; fp_second : bytes;
                   fp_msg : lv }.

Definition fsresp_build_tlv (r : fsresp) : res tlv :=
  do v <- common_packer (fp_action r) (map_enum_status_code_to_int (fp_status r))
                        (fp_first r) (fp_second r);
  tlv_new TLV_FILESTORE_RESPONSE (v ++ lv_pack (fp_msg r)).
Definition fsresp_pack (r : fsresp) : res bytes := do t <- fsresp_build_tlv r; tlv_pack t.
Definition fsresp_value (r : fsresp) : res bytes := do t <- fsresp_build_tlv r; Ok (tlv_value t).
Definition fsresp_packet_len (r : fsresp) : Z :=
  common_packet_len (fp_action r) (fp_first r) (fp_second r) + lv_packet_len (fp_msg r).

Definition fsresp_set_fields (data : bytes) : res fsresp :=
  do p <- common_unpacker data;
  let '(a, n1, st, idx, n2) := p in
  do sc <- fs_status_of_int (Z.lor (Z.shiftl a 4) st);
  do m <- lv_unpack (slice_from data idx);
  if negb (idx + lv_packet_len m =? len data) then Err EValue else
  Ok {| fp_action := a; fp_status := sc; fp_first := n1;
        fp_second := match n2 with Some s => s | None => [] end; fp_msg := m |}.

Definition fsresp_from_tlv (t : tlv) : res fsresp :=
  if negb (tlv_type t =? TLV_FILESTORE_RESPONSE) then Err ETlvMismatch
  else fsresp_set_fields (tlv_value t).

Definition fsresp_unpack (data : bytes) : res fsresp :=
  do t <- tlv_unpack data; fsresp_from_tlv t.

(* ---- holder.py : TlvHolder ---- *)
Inductive any_tlv :=
| HNone
| HGeneric (t : tlv)
| HFsReq (r : fsreq)
| HFsResp (r : fsresp)
| HMsg (t : tlv)
| HFault (f : fault_tlv)
| HFlow (t : tlv)
| HEntity (t : tlv).

(* the tlv_type property of the held object *)
Definition any_tlv_type (h : any_tlv) : Z :=
  match h with
  | HNone => -1
  | HGeneric t => tlv_type t
  | HFsReq _ => TLV_FILESTORE_REQUEST
  | HFsResp _ => TLV_FILESTORE_RESPONSE
  | HMsg _ => TLV_MESSAGE_TO_USER
  | HFault _ => TLV_FAULT_HANDLER
  | HFlow _ => TLV_FLOW_LABEL
  | HEntity _ => TLV_ENTITY_ID
  end.

(* __cast_internally: assert not None; TypeError on a different tlv_type; else the object *)
Definition cast_internally (h : any_tlv) (expected : Z) : res any_tlv :=
  match h with
  | HNone => Err EAssert
  | _ => if negb (any_tlv_type h =? expected) then Err EType else Ok h
  end.

Definition holder_to_fs_request (h : any_tlv) : res any_tlv :=
  match h with
  | HGeneric t => do r <- fsreq_from_tlv t; Ok (HFsReq r)
  | _ => cast_internally h TLV_FILESTORE_REQUEST
  end.
Definition holder_to_fs_response (h : any_tlv) : res any_tlv :=
  match h with
  | HGeneric t => do r <- fsresp_from_tlv t; Ok (HFsResp r)
  | _ => cast_internally h TLV_FILESTORE_RESPONSE
  end.
Definition holder_to_msg_to_user (h : any_tlv) : res any_tlv :=
  match h with
  | HGeneric t => do r <- msg_from_tlv t; Ok (HMsg r)
  | _ => cast_internally h TLV_MESSAGE_TO_USER
  end.
Definition holder_to_fault_handler_override (h : any_tlv) : res any_tlv :=
  match h with
  | HGeneric t => do r <- fault_from_tlv t; Ok (HFault r)
  | _ => cast_internally h TLV_FAULT_HANDLER
  end.
Definition holder_to_flow_label (h : any_tlv) : res any_tlv :=
  match h with
  | HGeneric t => do r <- flow_from_tlv t; Ok (HFlow r)
  | _ => cast_internally h TLV_FLOW_LABEL
  end.
Definition holder_to_entity_id (h : any_tlv) : res any_tlv :=
  match h with
  | HGeneric t => do r <- entity_from_tlv t; Ok (HEntity r)
  | _ => cast_internally h TLV_ENTITY_ID
  end.

(* pack / packet_len of any held object *)
Definition any_pack (h : any_tlv) : res bytes :=
  match h with
  | HNone => Err EAttribute
  | HGeneric t | HMsg t | HFlow t | HEntity t => tlv_pack t
  | HFault f => tlv_pack (fh_tlv f)
  | HFsReq r => fsreq_pack r
  | HFsResp r => fsresp_pack r
  end.
