(* Executable mirror of spacepackets/util.py: IntByteConversion, UnsignedByteField,
   ByteFieldU8/U16/U32/U64, ByteFieldGenerator.  Definitions only, no proofs.
   Same guards in the same order as the Python code. *)
From Coq Require Import ZArith List Bool.
From SP Require Import Base.Result Base.Bytes.
Import ListNotations.
Open Scope Z_scope.

(* ---------- IntByteConversion ---------- *)

(* unsigned_struct_specifier / signed_struct_specifier: "!B" "!H" "!I" "!Q" (resp. b h i q)
   are represented by their size in octets; any other byte_num -> ValueError *)
Definition unsigned_struct_specifier (byte_num : Z) : res nat :=
  if byte_num =? 1 then Ok 1%nat
  else if byte_num =? 2 then Ok 2%nat
  else if byte_num =? 4 then Ok 4%nat
  else if byte_num =? 8 then Ok 8%nat
  else Err EValue.
Definition signed_struct_specifier (byte_num : Z) : res nat :=
  if byte_num =? 1 then Ok 1%nat
  else if byte_num =? 2 then Ok 2%nat
  else if byte_num =? 4 then Ok 4%nat
  else if byte_num =? 8 then Ok 8%nat
  else Err EValue.

(* `byte_num not in [0, 1, 2, 4, 8]` *)
Definition byte_num_allowed (n : Z) : bool :=
  (n =? 0) || (n =? 1) || (n =? 2) || (n =? 4) || (n =? 8).

(* struct.pack("!b"/"!h"/"!i"/"!q", v): two's complement, struct.error out of range *)
Definition struct_pack_signed (n : nat) (v : Z) : res bytes :=
  if (- (256 ^ Z.of_nat n / 2) <=? v) && (v <? 256 ^ Z.of_nat n / 2)
  then Ok (be_encode n (v mod 256 ^ Z.of_nat n)) else Err EStruct.

Definition to_signed (byte_num val : Z) : res bytes :=
  check byte_num_allowed byte_num else EValue;
  if byte_num =? 0 then Ok [] else
  check negb (Z.abs val >? 2 ^ (byte_num * 8 - 1) - 1) else EValue;
  do k <- signed_struct_specifier byte_num;
  struct_pack_signed k val.

Definition to_unsigned (byte_num val : Z) : res bytes :=
  check byte_num_allowed byte_num else EValue;
  if byte_num =? 0 then Ok [] else
  check negb (val >? 2 ^ (byte_num * 8) - 1) else EValue;
  do k <- unsigned_struct_specifier byte_num;
  struct_pack k val.

(* ---------- UnsignedByteField ---------- *)

Record ubf := { ubf_len : Z; ubf_val : Z; ubf_bytes : bytes }.

Definition verify_byte_len (byte_len : Z) : res unit :=
  if byte_num_allowed byte_len then Ok tt else Err EValue.

Definition verify_int_value (byte_len val : Z) : res unit :=
  if (val >? 2 ^ (byte_len * 8) - 1) || (val <? 0) then Err EValue else Ok tt.

(* value setter, int branch (object with byte_len already set) *)
Definition ubf_set_int (f : ubf) (val : Z) : res ubf :=
  do _ <- verify_int_value (ubf_len f) val;
  do b <- to_unsigned (ubf_len f) val;
  Ok {| ubf_len := ubf_len f; ubf_val := val; ubf_bytes := b |}.

(* __init__(val, byte_len): byte_len setter, value setter, then to_unsigned once more *)
Definition ubf_new (val byte_len : Z) : res ubf :=
  do _ <- verify_byte_len byte_len;
  do _ <- verify_int_value byte_len val;
  do _ <- to_unsigned byte_len val;
  do b <- to_unsigned byte_len val;
  Ok {| ubf_len := byte_len; ubf_val := val; ubf_bytes := b |}.

(* int.from_bytes(b, byteorder="big"): total, 0 on the empty string *)
Definition int_from_bytes (b : bytes) : Z := be_decode b.

(* _verify_bytes_value *)
Definition verify_bytes_value (byte_len : Z) (val : bytes) : res (Z * bytes) :=
  check negb (len val <? byte_len) else EValue;
  let int_val := int_from_bytes (slice val 0 byte_len) in
  do _ <- verify_int_value byte_len int_val;
  Ok (int_val, slice val 0 byte_len).

(* value setter, bytes / bytearray branch *)
Definition ubf_set_bytes (f : ubf) (val : bytes) : res ubf :=
  do (v, b) <- verify_bytes_value (ubf_len f) val;
  Ok {| ubf_len := ubf_len f; ubf_val := v; ubf_bytes := b |}.

(* a history of assignments to `value`; a refused assignment raises and leaves the object
   as it was (both branches verify before they assign) *)
Inductive ubf_op := SetInt (v : Z) | SetBytes (b : bytes).
Definition ubf_step (f : ubf) (o : ubf_op) : res ubf :=
  match o with SetInt v => ubf_set_int f v | SetBytes b => ubf_set_bytes f b end.
Definition ubf_apply (f : ubf) (o : ubf_op) : ubf :=
  match ubf_step f o with Ok f' => f' | Err _ => f end.

(* UnsignedByteField.from_bytes(raw) *)
Definition ubf_from_bytes (raw : bytes) : res ubf :=
  do _ <- verify_byte_len (len raw);
  ubf_new (int_from_bytes raw) (len raw).

(* views *)
Definition ubf_int (f : ubf) : Z := ubf_val f.
Definition ubf_pylen (f : ubf) : Z := ubf_len f.
Definition ubf_as_bytes (f : ubf) : bytes := ubf_bytes f.

(* hex_str: f"{value:#0Nx}" with N = 2 + 2*byte_len; modelled as the list of the digits'
   values after the "0x" prefix (None when byte_len is 0: the method falls through).
   Python's format widens when the value needs more digits; every constructible field
   satisfies value < 256^byte_len (invariant ubf_wf, proved), where the digit count is
   exactly 2*byte_len. *)
Fixpoint hex_encode (n : nat) (v : Z) : list Z :=
  match n with
  | O => []
  | S k => (v / 16 ^ Z.of_nat k) mod 16 :: hex_encode k v
  end.
Definition ubf_hex_str (f : ubf) : option (list Z) :=
  if ubf_len f =? 1 then Some (hex_encode 2 (ubf_val f))
  else if ubf_len f =? 2 then Some (hex_encode 4 (ubf_val f))
  else if ubf_len f =? 4 then Some (hex_encode 8 (ubf_val f))
  else if ubf_len f =? 8 then Some (hex_encode 16 (ubf_val f))
  else None.

(* __eq__ with another field / with bytes; __hash__ = hash((value, byte_len)) *)
Definition ubf_eq (f g : ubf) : bool := (ubf_val f =? ubf_val g) && (ubf_len f =? ubf_len g).
Definition ubf_eq_bytes (f : ubf) (other : bytes) : bool := bytes_eqb (ubf_bytes f) other.
Definition ubf_hash_key (f : ubf) : Z * Z := (ubf_val f, ubf_len f).

(* ---------- concrete variants ---------- *)

Definition u8_new (val : Z) : res ubf := ubf_new val 1.
Definition u16_new (val : Z) : res ubf := ubf_new val 2.
Definition u32_new (val : Z) : res ubf := ubf_new val 4.
Definition u64_new (val : Z) : res ubf := ubf_new val 8.
(* ByteFieldEmpty(val=0): super().__init__(0, val) *)
Definition empty_new (val : Z) : res ubf := ubf_new 0 val.

Definition u8_from_bytes (stream : bytes) : res ubf :=
  check negb (len stream <? 1) else EValue;
  do v <- py_get stream 0;
  u8_new v.
Definition u16_from_bytes (stream : bytes) : res ubf :=
  check negb (len stream <? 2) else EValue;
  do k <- unsigned_struct_specifier 2;
  do v <- struct_unpack k (slice stream 0 2);
  u16_new v.
Definition u32_from_bytes (stream : bytes) : res ubf :=
  check negb (len stream <? 4) else EValue;
  do k <- unsigned_struct_specifier 4;
  do v <- struct_unpack k (slice stream 0 4);
  u32_new v.
Definition u64_from_bytes (stream : bytes) : res ubf :=
  check negb (len stream <? 8) else EValue;
  do k <- unsigned_struct_specifier 8;
  do v <- struct_unpack k (slice stream 0 8);
  u64_new v.

(* ---------- ByteFieldGenerator ---------- *)

Definition gen_from_int (byte_len val : Z) : res ubf :=
  if byte_len =? 1 then u8_new val
  else if byte_len =? 2 then u16_new val
  else if byte_len =? 4 then u32_new val
  else if byte_len =? 8 then u64_new val
  else Err EValue.

Definition gen_from_bytes (byte_len : Z) (stream : bytes) : res ubf :=
  if byte_len =? 1 then u8_from_bytes stream
  else if byte_len =? 2 then u16_from_bytes stream
  else if byte_len =? 4 then u32_from_bytes stream
  else if byte_len =? 8 then u64_from_bytes stream
  else Err EValue.
