(* Model of the floating-point parts of spacepackets/ccsds/time/cds.py on the integer
   binary64 arithmetic of Model/CdsSoftFloat.v: _calculate_unix_seconds, _calculate_date_time
   (through CPython's datetime.fromtimestamp / timedelta(seconds=float)), from_datetime,
   ms_of_today.  Definitions only. *)
From Coq Require Import ZArith List Bool.
From SP Require Import Base.Result Base.Bytes Model.CdsSoftFloat Model.Cds.
Import ListNotations.
Open Scope Z_scope.

(* _calculate_unix_seconds: (unix_days * MS_PER_DAY + ms_of_day) / 1000.0 *)
Definition cds_unix_seconds (t : cds) : fl :=
  let unix_days := convert_ccsds_days_to_unix_days (cdays t) in
  fdiv (of_Z (unix_days * MS_PER_DAY + cms t)) (of_Z 1000).

(* CPython datetime.fromtimestamp(t, tz=utc), t >= 0 (C: _PyTime_ObjectToTimeval with
   ROUND_HALF_EVEN): modf, fraction * 1e6 rounded, round-half-even to an integer, carry.
   Result in microseconds since 1970-01-01T00:00:00Z. *)
Definition us_fromtimestamp (t : fl) : Z :=
  let intpart := ftrunc t in
  let floatpart := fround_even (fmul (ffrac t) (of_Z 1000000)) in
  if floatpart >=? 1000000 then (intpart + 1) * 1000000 + (floatpart - 1000000)
  else if floatpart <? 0 then (intpart - 1) * 1000000 + (floatpart + 1000000)
  else intpart * 1000000 + floatpart.

(* CPython timedelta(seconds=t) (C: delta_new / accum): whole seconds exactly, fraction * 1e6
   in double, its integer part added, the remaining fraction rounded half-to-even with
   respect to the parity of the accumulated microsecond count. *)
Definition us_timedelta_seconds (t : fl) : Z :=
  let intpart := ftrunc t in
  let fracpart := ffrac t in
  if fm fracpart =? 0 then intpart * 1000000 else
  let dnum := fmul (of_Z 1000000) fracpart in
  let x := intpart * 1000000 + ftrunc dnum in
  let leftover := ffrac dnum in
  if fm leftover =? 0 then x else
  let whole := fround_away leftover in
  (* fabs(whole_us - leftover_us) == 0.5 *)
  let tie := Z.abs (2 * (fm leftover - whole * 2 ^ (- fe leftover))) =? 2 ^ (- fe leftover) in
  let x_is_odd := if Z.odd x then 1 else 0 in
  let whole := if tie
               then 2 * fround_away (fmul (fadd leftover (of_Z x_is_odd)) {| fm := 2 ^ 52; fe := -53 |})
                    - x_is_odd
               else whole in
  x + whole.

(* _calculate_date_time: microseconds since the Unix epoch of self._datetime *)
Definition cds_datetime_us (t : cds) : Z :=
  let u := cds_unix_seconds t in
  if fneg u then us_timedelta_seconds u else us_fromtimestamp u.

(* the _unix_seconds cached by from_datetime(dt), dt - 1970-01-01T00:00Z =
   timedelta(days = ud, seconds = sod, microseconds = us):
   dt.timestamp() = (dt - epoch).total_seconds() = total microseconds / 10^6 (int / int). *)
Definition dt_timestamp (ud sod us : Z) : fl :=
  rne ((ud * 86400 + sod) * 1000000 + us) 1000000.

(* ms_of_today(seconds_since_epoch) for an explicit float argument:
   int(math.floor(seconds_since_epoch * 1000)) % MS_PER_DAY *)
Definition cds_ms_of_today (s : fl) : Z :=
  ffloor (fmul s (of_Z 1000)) mod MS_PER_DAY.
