(* Model of spacepackets/ecss/pus_1_verification.py (FailureNotice, VerificationParams,
   Service1Tm, create_*_tm).  Definitions only. *)
From Coq Require Import ZArith List Bool.
From SP Require Import Base.Result Base.Bytes Model.SpacePacket Model.PusTc Model.PusTm
  Model.ReqId Model.Fields.
Import ListNotations.
Open Scope Z_scope.

Definition S1_VERIFICATION : Z := 1.
Definition SUB_INVALID : Z := 0.
Definition SUB_ACC_OK : Z := 1.
Definition SUB_ACC_FAIL : Z := 2.
Definition SUB_START_OK : Z := 3.
Definition SUB_START_FAIL : Z := 4.
Definition SUB_STEP_OK : Z := 5.
Definition SUB_STEP_FAIL : Z := 6.
Definition SUB_COMPL_OK : Z := 7.
Definition SUB_COMPL_FAIL : Z := 8.

(* ---- FailureNotice ---- *)
Record fnotice := { fn_code : pfe; fn_data : bytes }.

Definition fn_pack (f : fnotice) : res bytes :=
  do c <- pfe_pack (fn_code f);
  Ok (c ++ fn_data f).

Definition fn_len (f : fnotice) : res Z :=
  do n <- pfe_len (fn_code f);
  Ok (n + len (fn_data f)).

(* FailureNotice.unpack(data, num_bytes_err_code, num_bytes_data); num_bytes_data None or >= 0 *)
Definition fn_unpack (data : bytes) (num_bytes_err_code : Z) (num_bytes_data : option Z) : res fnotice :=
  let pfc := num_bytes_err_code * 8 in
  let nd := match num_bytes_data with None => len data - num_bytes_err_code | Some k => k end in
  do c <- pfe_unpack data pfc;
  Ok {| fn_code := c; fn_data := slice data num_bytes_err_code (num_bytes_err_code + nd) |}.

(* FailureNotice.__eq__ : self.code == other.code and self.data == other.data *)
Definition fn_eqb (a b : fnotice) : bool :=
  pfe_eqb (fn_code a) (fn_code b) && bytes_eqb (fn_data a) (fn_data b).

(* ---- VerificationParams ---- *)
Record vparams := { vp_req : reqid; vp_step : option pfe; vp_fn : option fnotice }.

Definition vp_pack (v : vparams) : res bytes :=
  do r <- reqid_pack (vp_req v);
  do s <- match vp_step v with None => Ok [] | Some f => pfe_pack f end;
  do n <- match vp_fn v with None => Ok [] | Some f => fn_pack f end;
  Ok (r ++ s ++ n).

Definition vp_len (v : vparams) : res Z :=
  do s <- match vp_step v with None => Ok 0 | Some f => pfe_len f end;
  do n <- match vp_fn v with None => Ok 0 | Some f => fn_len f end;
  Ok (4 + s + n).

Definition is_none {A} (o : option A) : bool := match o with None => true | Some _ => false end.

Definition vp_verify (v : vparams) (subservice : Z) : res unit :=
  if subservice mod 2 =? 0 then
    if is_none (vp_fn v) then Err EVerifParams else
    if (subservice =? SUB_STEP_FAIL) && is_none (vp_step v) then Err EVerifParams else
    if negb (subservice =? SUB_STEP_FAIL) && negb (is_none (vp_step v)) then Err EVerifParams else
    Ok tt
  else
    if negb (is_none (vp_fn v)) then Err EVerifParams else
    if (subservice =? SUB_STEP_OK) && is_none (vp_step v) then Err EVerifParams else
    if negb (subservice =? SUB_STEP_OK) && negb (is_none (vp_step v)) then Err EVerifParams else
    Ok tt.

(* dataclass __eq__ of two VerificationParams objects: tuple comparison, item by item,
   stopping at the first unequal item.  RequestId.__eq__ compares as_u32;
   PacketFieldEnum.__eq__ reads other.pfc (AttributeError when the other side is None);
   FailureNotice.__eq__ answers False for a non-FailureNotice. *)
Definition vp_eq (a b : vparams) : res bool :=
  if negb (reqid_eqb (vp_req a) (vp_req b)) then Ok false else
  do st <- match vp_step a, vp_step b with
           | None, None => Ok true
           | Some x, Some y => Ok (pfe_eqb x y)
           | _, _ => Err EAttribute
           end;
  if negb st then Ok false else
  match vp_fn a, vp_fn b with
  | None, None => Ok true
  | Some x, Some y => Ok (fn_eqb x y)
  | _, _ => Ok false
  end.

(* ---- Service1Tm ---- *)
Record srv1 := { s1_tm : tm; s1_vp : vparams }.

Definition vp_empty : vparams := {| vp_req := reqid_empty; vp_step := None; vp_fn := None |}.

(* Service1Tm.__init__ *)
Definition srv1_new (apid subservice : Z) (timestamp : bytes) (vp : option vparams)
           (seq_count version ref dest : Z) : res srv1 :=
  do t <- tm_new S1_VERIFICATION subservice timestamp [] apid seq_count 0 ref dest version;
  match vp with
  | None => Ok {| s1_tm := t; s1_vp := vp_empty |}
  | Some v =>
      do _ <- vp_verify v subservice;
      do d <- vp_pack v;
      Ok {| s1_tm := tm_set_tm_data t d; s1_vp := v |}
  end.

Definition srv1_pack (s : srv1) : res (bytes * srv1) :=
  do p <- tm_pack (s1_tm s);
  Ok (fst p, {| s1_tm := snd p; s1_vp := s1_vp s |}).

Record unpack_params := { up_ts_len : Z; up_step : Z; up_err : Z }.

Definition srv1_subservice (s : srv1) : Z := tms_subservice (tm_sec (s1_tm s)).
Definition srv1_is_step_reply (s : srv1) : bool :=
  (srv1_subservice s =? SUB_STEP_FAIL) || (srv1_subservice s =? SUB_STEP_OK).
Definition srv1_has_failure_notice (s : srv1) : bool := srv1_subservice s mod 2 =? 0.

Definition set_req (s : srv1) (r : reqid) : srv1 :=
  {| s1_tm := s1_tm s; s1_vp := {| vp_req := r; vp_step := vp_step (s1_vp s); vp_fn := vp_fn (s1_vp s) |} |}.
Definition set_step (s : srv1) (f : pfe) : srv1 :=
  {| s1_tm := s1_tm s; s1_vp := {| vp_req := vp_req (s1_vp s); vp_step := Some f; vp_fn := vp_fn (s1_vp s) |} |}.
Definition set_fn (s : srv1) (f : fnotice) : srv1 :=
  {| s1_tm := s1_tm s; s1_vp := {| vp_req := vp_req (s1_vp s); vp_step := vp_step (s1_vp s); vp_fn := Some f |} |}.

Definition unpack_failure_verification (s : srv1) (cfg : unpack_params) : res srv1 :=
  let tm_data := tm_src (s1_tm s) in
  let subservice := srv1_subservice s in
  do expected_len <-
    (if subservice =? 6 then Ok (up_err cfg + up_step cfg)
     else if negb ((subservice =? 2) || (subservice =? 4) || (subservice =? 8)) then Err EValue
     else Ok (up_err cfg));
  if len tm_data <? expected_len then Err ETooShort else
  do r <- (if srv1_is_step_reply s then
             do st <- pfe_unpack (slice_from tm_data 4) (up_step cfg * 8);
             Ok (set_step s st, 4 + up_step cfg)
           else Ok (s, 4));
  let '(s1, idx) := r in
  do f <- fn_unpack (slice_from tm_data idx) (up_err cfg) (Some (len tm_data - idx));
  Ok (set_fn s1 f).

Definition unpack_success_verification (s : srv1) (cfg : unpack_params) : res srv1 :=
  let sub := srv1_subservice s in
  if sub =? SUB_STEP_OK then
    do st <- pfe_unpack (slice (tm_src (s1_tm s)) 4 (4 + up_step cfg)) (up_step cfg * 8);
    Ok (set_step s st)
  else if negb ((sub =? 1) || (sub =? 3) || (sub =? 7)) then Err EValue
  else Ok s.

Definition unpack_raw_tm (s : srv1) (cfg : unpack_params) : res srv1 :=
  let tm_data := tm_src (s1_tm s) in
  if len tm_data <? 4 then Err ETooShort else
  do r <- reqid_unpack (slice tm_data 0 4);
  let s1 := set_req s r in
  if srv1_subservice s1 mod 2 =? 0 then unpack_failure_verification s1 cfg
  else unpack_success_verification s1 cfg.

(* Service1Tm.from_tm / Service1Tm.unpack: start from __empty() (whose verification
   parameters are VerificationParams(RequestId.empty())), replace the PusTm, decode *)
Definition srv1_from_tm (t : tm) (cfg : unpack_params) : res srv1 :=
  unpack_raw_tm {| s1_tm := t; s1_vp := vp_empty |} cfg.

Definition srv1_unpack (data : bytes) (cfg : unpack_params) : res srv1 :=
  do t <- tm_unpack data (up_ts_len cfg);
  unpack_raw_tm {| s1_tm := t; s1_vp := vp_empty |} cfg.

(* error_code property: asserts that a failure notice is present on failure subservices *)
Definition srv1_error_code (s : srv1) : res (option pfe) :=
  if srv1_has_failure_notice s then
    match vp_fn (s1_vp s) with None => Err EAssert | Some f => Ok (Some (fn_code f)) end
  else Ok None.

(* Service1Tm.__eq__ for two distinct objects *)
Definition srv1_eq (a b : srv1) : res bool :=
  if tm_eqb (s1_tm a) (s1_tm b) then vp_eq (s1_vp a) (s1_vp b) else Ok false.

(* create_*_tm(apid, pus_tc, [step_id], [failure_notice], timestamp) for subservice k = 1..8 *)
Definition srv1_create (k apid : Z) (tc_hdr : sph) (step : option pfe) (fn : option fnotice)
           (timestamp : bytes) : res srv1 :=
  srv1_new apid k timestamp
    (Some {| vp_req := reqid_from_sph tc_hdr; vp_step := step; vp_fn := fn |}) 0 0 0 0.

(* ---- operation histories (C15 hardening) ---- *)
(* VerificationParams is a dataclass: req_id, step_id, failure_notice are public, and so are the
   attributes of the objects they hold *)
Inductive vp_op :=
| VpSetReq (r : reqid) | VpSetStep (s : option pfe) | VpSetFn (f : option fnotice)
| VpStepVal (v : Z)            (* vp.step_id.val = v : AttributeError when there is no step ID *)
| VpFnData (d : bytes)         (* vp.failure_notice.data = d *)
| VpFnCodeVal (v : Z)          (* vp.failure_notice.code.val = v *)
| VpPack | VpLen | VpVerify (k : Z) | VpObserve.

Definition vp_apply (v : vparams) (o : vp_op) : res vparams :=
  match o with
  | VpSetReq r => Ok {| vp_req := r; vp_step := vp_step v; vp_fn := vp_fn v |}
  | VpSetStep s => Ok {| vp_req := vp_req v; vp_step := s; vp_fn := vp_fn v |}
  | VpSetFn f => Ok {| vp_req := vp_req v; vp_step := vp_step v; vp_fn := f |}
  | VpStepVal x =>
      match vp_step v with
      | None => Err EAttribute
      | Some s => Ok {| vp_req := vp_req v; vp_step := Some {| pfe_pfc := pfe_pfc s; pfe_val := x |};
                        vp_fn := vp_fn v |}
      end
  | VpFnData d =>
      match vp_fn v with
      | None => Err EAttribute
      | Some f => Ok {| vp_req := vp_req v; vp_step := vp_step v;
                        vp_fn := Some {| fn_code := fn_code f; fn_data := d |} |}
      end
  | VpFnCodeVal x =>
      match vp_fn v with
      | None => Err EAttribute
      | Some f => Ok {| vp_req := vp_req v; vp_step := vp_step v;
                        vp_fn := Some {| fn_code := {| pfe_pfc := pfe_pfc (fn_code f); pfe_val := x |};
                                         fn_data := fn_data f |} |}
      end
  | VpPack | VpLen | VpVerify _ | VpObserve => Ok v
  end.

(* Service1Tm: pack (fills the telemetry object's CRC cache), the tc_req_id setter (stores the
   request ID in the verification parameters; the source data are NOT rebuilt), assignments
   through the public pus_tm attribute, decoding the object's own output *)
Inductive s1_op :=
| S1Pack | S1Observe | S1ErrorCode
| S1SetReq (r : reqid)
| S1SetSeqCount (v : Z)        (* s.pus_tm.space_packet_header.seq_count = v *)
| S1SetApid (v : Z)            (* s.pus_tm.apid = v *)
| S1Redecode (ws we : Z)       (* s = Service1Tm.unpack(s.pack() + suffix, UnpackParams(len(timestamp), ws, we)) *)
| S1Roundtrip (ws we : Z).     (* observe that, keep the object *)

Definition srv1_with_tm (s : srv1) (t : tm) : srv1 := {| s1_tm := t; s1_vp := s1_vp s |}.

Definition srv1_redecode (s : srv1) (ws we : Z) : res (srv1 * srv1) :=
  do p <- srv1_pack s;
  do u <- srv1_unpack (fst p ++ [165; 90])
            {| up_ts_len := len (tms_stamp (tm_sec (s1_tm s))); up_step := ws; up_err := we |};
  Ok (u, snd p).

Definition srv1_apply (s : srv1) (o : s1_op) : res srv1 :=
  match o with
  | S1Pack => do p <- srv1_pack s; Ok (snd p)
  | S1SetReq r => Ok (set_req s r)
  | S1SetSeqCount v => Ok (srv1_with_tm s
      {| tm_sph := sph_apply (tm_sph (s1_tm s)) (SoCount v); tm_sec := tm_sec (s1_tm s);
         tm_src := tm_src (s1_tm s); tm_crc := tm_crc (s1_tm s) |})
  | S1SetApid v => do t <- tm_apply (s1_tm s) (TmSetApid v); Ok (srv1_with_tm s t)
  | S1Redecode ws we => do r <- srv1_redecode s ws we; Ok (fst r)
  | S1Roundtrip ws we => do r <- srv1_redecode s ws we; Ok (snd r)   (* pack() filled the CRC cache *)
  | S1Observe | S1ErrorCode => Ok s
  end.
