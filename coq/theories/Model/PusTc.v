(* Model of spacepackets/ecss/tc.py: PusTcDataFieldHeader, PusTc, and
   spacepackets/ecss/__init__.py: check_pus_crc.  Definitions only. *)
From Coq Require Import ZArith List Bool.
From SP Require Import Base.Result Base.Bytes Base.Crc16 Model.SpacePacket.
Import ListNotations.
Open Scope Z_scope.

Definition PUS_C : Z := 2.
Definition PUS_C_SEC_HEADER_LEN : Z := 5.

Record tcsec := { tcs_service : Z; tcs_subservice : Z; tcs_source_id : Z; tcs_ack : Z }.

Definition tcsec_pack (s : tcsec) : res bytes :=
  do r0 <- ba_append [] (Z.lor (Z.shiftl PUS_C 4) (tcs_ack s));
  do r1 <- ba_append r0 (tcs_service s);
  do r2 <- ba_append r1 (tcs_subservice s);
  do sid <- struct_pack 2 (tcs_source_id s);
  Ok (r2 ++ sid).

Definition tcsec_unpack (data : bytes) : res tcsec :=
  if len data <? PUS_C_SEC_HEADER_LEN then Err ETooShort else
  do d0 <- py_get data 0;
  let pus_version := Z.shiftr (Z.land d0 240) 4 in
  if negb (pus_version =? PUS_C) then Err EValue else
  let ack_flags := Z.land d0 15 in
  do service <- py_get data 1;
  do subservice <- py_get data 2;
  do source_id <- struct_unpack 2 (slice data 3 5);
  Ok {| tcs_service := service; tcs_subservice := subservice;
        tcs_source_id := source_id; tcs_ack := ack_flags |}.

Record tc := { tc_sph : sph; tc_sec : tcsec; tc_app : bytes; tc_crc : option bytes }.

Definition tc_get_data_length (app_data_len secondary_header_len : Z) : Z :=
  secondary_header_len + app_data_len + 1.

(* PusTc.__init__ *)
Definition tc_new (service subservice apid : Z) (app : bytes) (seq_count source_id ack : Z) : res tc :=
  let sec := {| tcs_service := service; tcs_subservice := subservice;
                tcs_source_id := source_id; tcs_ack := ack |} in
  let data_length := tc_get_data_length (len app) PUS_C_SEC_HEADER_LEN in
  do h <- sph_new PT_TC apid seq_count data_length 1 SF_UNSEG 0;
  Ok {| tc_sph := h; tc_sec := sec; tc_app := app; tc_crc := None |}.

Definition tc_packet_len (t : tc) : Z := sph_packet_len (tc_sph t).

(* PusTc.pack() with the default recalc_crc=True: returns the octets and the object
   with its cached CRC updated *)
Definition tc_pack (t : tc) : res (bytes * tc) :=
  do h <- sph_pack (tc_sph t);
  do s <- tcsec_pack (tc_sec t);
  let body := h ++ s ++ tc_app t in
  do c <- struct_pack 2 (crc16 body);
  Ok (body ++ c, {| tc_sph := tc_sph t; tc_sec := tc_sec t; tc_app := tc_app t; tc_crc := Some c |}).

(* PusTc.pack(recalc_crc=False) *)
Definition tc_pack_norecalc (t : tc) : res (bytes * tc) :=
  match tc_crc t with
  | None => tc_pack t
  | Some c =>
    do h <- sph_pack (tc_sph t);
    do s <- tcsec_pack (tc_sec t);
    Ok (h ++ s ++ tc_app t ++ c, t)
  end.

Definition tc_calc_crc (t : tc) : res tc :=
  do h <- sph_pack (tc_sph t);
  do s <- tcsec_pack (tc_sec t);
  do c <- struct_pack 2 (crc16 (h ++ s ++ tc_app t));
  Ok {| tc_sph := tc_sph t; tc_sec := tc_sec t; tc_app := tc_app t; tc_crc := Some c |}.

(* PusTc.to_space_packet().pack() *)
Definition tc_to_space_packet_pack (t : tc) : res bytes :=
  do t' <- tc_calc_crc t;
  do s <- tcsec_pack (tc_sec t');
  match tc_crc t' with
  | Some c => space_packet_pack (tc_sph t') (Some s) (Some (tc_app t' ++ c))
  | None => Err EType
  end.

Definition tc_unpack (data : bytes) : res tc :=
  do h <- sph_unpack data;
  do s <- tcsec_unpack (slice_from data CCSDS_HEADER_LEN);
  let header_len := CCSDS_HEADER_LEN + PUS_C_SEC_HEADER_LEN in
  let expected_packet_len := sph_packet_len h in
  if expected_packet_len <? header_len + 2 then Err EValue else
  if len data <? expected_packet_len then Err ETooShort else
  let app := slice data header_len (expected_packet_len - 2) in
  let crc := slice data (expected_packet_len - 2) expected_packet_len in
  if negb (crc16 (slice_to data expected_packet_len) =? 0) then Err ECrc else
  Ok {| tc_sph := h; tc_sec := s; tc_app := app; tc_crc := Some crc |}.

(* __eq__ : header octets, secondary-header octets, application data *)
Definition tcsec_eqb (a b : tcsec) : bool :=
  match tcsec_pack a, tcsec_pack b with
  | Ok x, Ok y => bytes_eqb x y
  | _, _ => false
  end.
Definition tc_eqb (a b : tc) : bool :=
  sph_eqb (tc_sph a) (tc_sph b) && tcsec_eqb (tc_sec a) (tc_sec b) && bytes_eqb (tc_app a) (tc_app b).

(* app_data setter: keeps the data length field in step *)
Definition tc_set_app_data (t : tc) (d : bytes) : tc :=
  let h := tc_sph t in
  {| tc_sph := {| ver := ver h; ptype := ptype h; shf := shf h; apid := apid h;
                  sflags := sflags h; scount := scount h;
                  dlen := tc_get_data_length (len d) PUS_C_SEC_HEADER_LEN |};
     tc_sec := tc_sec t; tc_app := d; tc_crc := tc_crc t |}.

(* spacepackets.ecss.check_pus_crc *)
Definition check_pus_crc (p : bytes) : bool := crc16 p =? 0.

(* ---- operation histories on a telecommand object (setters do not validate, as in the code) ---- *)
Inductive tc_op :=
| TcPack | TcPackNoRecalc | TcCalcCrc
| TcSetApp (d : bytes) | TcSetSeq (v : Z) | TcSetApid (v : Z) | TcSetSource (v : Z).

Definition sph_with (h : sph) (a c : Z) : sph :=
  {| ver := ver h; ptype := ptype h; shf := shf h; apid := a; sflags := sflags h; scount := c; dlen := dlen h |}.

Definition tc_apply (t : tc) (o : tc_op) : res tc :=
  match o with
  | TcPack => do r <- tc_pack t; Ok (snd r)
  | TcPackNoRecalc => do r <- tc_pack_norecalc t; Ok (snd r)
  | TcCalcCrc => tc_calc_crc t
  | TcSetApp d => Ok (tc_set_app_data t d)
  | TcSetSeq v => Ok {| tc_sph := sph_with (tc_sph t) (apid (tc_sph t)) v; tc_sec := tc_sec t;
                        tc_app := tc_app t; tc_crc := tc_crc t |}
  | TcSetApid v => Ok {| tc_sph := sph_with (tc_sph t) v (scount (tc_sph t)); tc_sec := tc_sec t;
                         tc_app := tc_app t; tc_crc := tc_crc t |}
  | TcSetSource v => Ok {| tc_sph := tc_sph t;
                           tc_sec := {| tcs_service := tcs_service (tc_sec t);
                                        tcs_subservice := tcs_subservice (tc_sec t);
                                        tcs_source_id := v; tcs_ack := tcs_ack (tc_sec t) |};
                           tc_app := tc_app t; tc_crc := tc_crc t |}
  end.

Fixpoint tc_run (t : tc) (ops : list tc_op) : res tc :=
  match ops with
  | [] => Ok t
  | o :: r => do t' <- tc_apply t o; tc_run t' r
  end.
