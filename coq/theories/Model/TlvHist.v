(* Live-object histories of spacepackets/cfdp/lv.py and spacepackets/cfdp/tlv/{tlv,msg_to_user,holder}.py:
   what attribute assignment, the tlv_type setter, sub-object edits, pack() / value / generate_tlv()
   do to ONE object, step by step.  Definitions only.  The pure functions of Model/Lv.v and
   Model/Tlv.v are reused; this file adds the state the classes keep between calls:
     CfdpLv             value (plain attribute; value_len is derived from it)
     CfdpTlv            _tlv_type (setter), _value (no setter), value_len
     Entity/Flow/Msg    tlv (plain attribute holding a CfdpTlv)
     FaultHandler...    condition_code, handler_code, tlv (three independent plain attributes)
     FileStore*Tlv      action_code, [status_code,] first_file_name, second_file_name, [filestore_msg,]
                        tlv (the generic TLV built by the last generate_tlv / pack / value; None before)     *)
From Coq Require Import ZArith List Bool.
From SP Require Import Base.Result Base.Bytes Base.Utf8 Model.Lv Model.Tlv.
Import ListNotations.
Open Scope Z_scope.

(* ---- CfdpLv as a mutable object ----
   `value` is a plain attribute; `value_len` is the property len(self.value) (since the repair 1f544ac: it used to be
   stored by __init__ and went stale on assignment).  Assignment does not validate, so the value may exceed 255
   octets; pack() then fails in bytearray.append. *)
Definition lvh := bytes.
Definition lvh_of (v : lv) : lvh := v.
Definition lh_value (l : lvh) : bytes := l.
Definition lh_len (l : lvh) : Z := len l.
Definition lvh_packet_len (l : lvh) : Z := lh_len l + 1.
(* pack: packet.append(self.value_len); if self.value_len > 0: packet.extend(self.value) *)
Definition lvh_pack (l : lvh) : res bytes :=
  do a <- ba_append [] (lh_len l);
  Ok (a ++ (if lh_len l >? 0 then lh_value l else [])).
(* lv.value = v : plain attribute *)
Definition lvh_set_value (l : lvh) (v : bytes) : lvh := v.

(* ---- FileStoreRequestTlv / FileStoreResponseTlv as mutable objects ---- *)
Record fsh := {
  fs_resp : bool;                (* which of the two classes *)
  fs_action : Z; fs_status : Z;  (* status_code exists on the response only *)
  fs_first : bytes; fs_second : bytes;
  fs_msg : lvh;                  (* filestore_msg, response only *)
  fs_cache : option tlv          (* self.tlv *)
}.
Definition fsh_with_cache (s : fsh) (c : option tlv) : fsh :=
  {| fs_resp := fs_resp s; fs_action := fs_action s; fs_status := fs_status s; fs_first := fs_first s;
     fs_second := fs_second s; fs_msg := fs_msg s; fs_cache := c |}.
Definition fsh_of_req (r : fsreq) : fsh :=
  {| fs_resp := false; fs_action := fq_action r; fs_status := 0; fs_first := fq_first r;
     fs_second := fq_second r; fs_msg := lvh_of []; fs_cache := None |}.
Definition fsh_of_resp (r : fsresp) : fsh :=
  {| fs_resp := true; fs_action := fp_action r; fs_status := fp_status r; fs_first := fp_first r;
     fs_second := fp_second r; fs_msg := lvh_of (fp_msg r); fs_cache := None |}.

(* _build_tlv *)
Definition fsh_build (s : fsh) : res tlv :=
  if fs_resp s then
    do v <- common_packer (fs_action s) (map_enum_status_code_to_int (fs_status s)) (fs_first s) (fs_second s);
    do m <- lvh_pack (fs_msg s);
    tlv_new TLV_FILESTORE_RESPONSE (v ++ m)
  else
    do v <- common_packer (fs_action s) 0 (fs_first s) (fs_second s);
    tlv_new TLV_FILESTORE_REQUEST v.

(* generate_tlv: self.tlv = self._build_tlv()  (since the repair 98690eb: it used to keep the TLV built first) *)
Definition fsh_generate (s : fsh) : res fsh :=
  do t <- fsh_build s; Ok (fsh_with_cache s (Some t)).

Definition fsh_packet_len (s : fsh) : Z :=
  common_packet_len (fs_action s) (fs_first s) (fs_second s)
  + (if fs_resp s then lvh_packet_len (fs_msg s) else 0).

(* ---- the object under observation ---- *)
Inductive hobj :=
| HoLv (l : lvh)
| HoTlv (t : tlv)
| HoWrap (cls : Z) (t : tlv)                 (* EntityIdTlv / FlowLabelTlv / MessageToUserTlv *)
| HoFault (cc hc : Z) (t : tlv)
| HoFs (s : fsh).

Inductive hop :=
| PPack                                      (* o.pack() *)
| PValue                                     (* o.value  (filestore classes: generates the TLV) *)
| PGenerate                                  (* o.generate_tlv() *)
| PSetValue (v : bytes)                      (* o.value = v *)
| PSetValueInplace (v x : bytes)             (* b = bytearray(v); o.value = b; b.extend(x); o.value = b *)
| PSetType (x : Z)                           (* o.tlv_type = x *)
| PSetPacketLen (x : Z)                      (* o.packet_len = x *)
| PSetTlv (ty : Z) (v : bytes)               (* o.tlv = CfdpTlv(ty, v) *)
| PSetTlvNone                                (* o.tlv = None *)
| PSubType (x : Z)                           (* o.tlv.tlv_type = x *)
| PSetCc (x : Z) | PSetHc (x : Z)            (* o.condition_code = x / o.handler_code = x *)
| PSetAction (x : Z) | PSetStatus (x : Z)
| PSetFirst (v : bytes) | PSetSecond (v : bytes)   (* str given by its UTF-8 octets *)
| PSetMsg (v : bytes)                        (* o.filestore_msg = CfdpLv(v) *)
| PSubMsgValue (v : bytes)                   (* o.filestore_msg.value = v *)
| PBad.

Definition with_type (t : tlv) (x : Z) : tlv := {| tlv_type := x; tlv_value := tlv_value t |}.

(* outcome of one step: what the call returned / raised, and the object afterwards *)
Definition hout := (res bytes * hobj)%type.
Definition done (o : hobj) : hout := (Ok [], o).
Definition refused (e : err) (o : hobj) : hout := (Err e, o).

Definition fs_set (s : fsh) (a st : Z) (f sd : bytes) (m : lvh) : fsh :=
  {| fs_resp := fs_resp s; fs_action := a; fs_status := st; fs_first := f; fs_second := sd; fs_msg := m;
     fs_cache := fs_cache s |}.

Definition hstep (o : hobj) (p : hop) : hout :=
  match o, p with
  (* ---- every class: properties without a setter ---- *)
  | _, PSetPacketLen _ => refused EAttribute o
  (* ---- CfdpLv ---- *)
  | HoLv l, PPack => (lvh_pack l, o)
  | HoLv l, PSetValue v => done (HoLv (lvh_set_value l v))
  | HoLv l, PSetValueInplace v x => done (HoLv (lvh_set_value l (v ++ x)))
  (* ---- CfdpTlv ---- *)
  | HoTlv t, PPack => (tlv_pack t, o)
  | HoTlv t, PSetType x => done (HoTlv (with_type t x))
  | HoTlv t, PSetValue _ => refused EAttribute o
  (* ---- wrappers ---- *)
  | HoWrap c t, PPack => (tlv_pack t, o)
  | HoWrap c t, PValue => (Ok (tlv_value t), o)
  | HoWrap c t, PSetTlv ty v =>
      match tlv_new ty v with Ok t' => done (HoWrap c t') | Err e => refused e o end
  | HoWrap c t, PSubType x => done (HoWrap c (with_type t x))
  | HoWrap c t, (PSetType _ | PSetValue _) => refused EAttribute o
  (* ---- fault handler override ---- *)
  | HoFault cc hc t, PPack => (tlv_pack t, o)
  | HoFault cc hc t, PValue => (Ok (tlv_value t), o)
  | HoFault cc hc t, PSetTlv ty v =>
      match tlv_new ty v with Ok t' => done (HoFault cc hc t') | Err e => refused e o end
  | HoFault cc hc t, PSubType x => done (HoFault cc hc (with_type t x))
  | HoFault cc hc t, PSetCc x => done (HoFault x hc t)
  | HoFault cc hc t, PSetHc x => done (HoFault cc x t)
  | HoFault cc hc t, (PSetType _ | PSetValue _) => refused EAttribute o
  (* ---- filestore request / response ---- *)
  | HoFs s, PGenerate =>
      match fsh_generate s with Ok s' => done (HoFs s') | Err e => refused e o end
  | HoFs s, PPack =>
      match fsh_generate s with
      | Ok s' => (match fs_cache s' with Some t => tlv_pack t | None => Err EAttribute end, HoFs s')
      | Err e => refused e o
      end
  | HoFs s, PValue =>
      match fsh_generate s with
      | Ok s' => (match fs_cache s' with Some t => Ok (tlv_value t) | None => Err EAttribute end, HoFs s')
      | Err e => refused e o
      end
  | HoFs s, PSetTlv ty v =>
      match tlv_new ty v with Ok t' => done (HoFs (fsh_with_cache s (Some t'))) | Err e => refused e o end
  | HoFs s, PSetTlvNone => done (HoFs (fsh_with_cache s None))
  | HoFs s, PSubType x =>
      match fs_cache s with
      | Some t => done (HoFs (fsh_with_cache s (Some (with_type t x))))
      | None => refused EAttribute o                    (* None has no attribute tlv_type *)
      end
  | HoFs s, PSetAction x => done (HoFs (fs_set s x (fs_status s) (fs_first s) (fs_second s) (fs_msg s)))
  | HoFs s, PSetFirst v => done (HoFs (fs_set s (fs_action s) (fs_status s) v (fs_second s) (fs_msg s)))
  | HoFs s, PSetSecond v => done (HoFs (fs_set s (fs_action s) (fs_status s) (fs_first s) v (fs_msg s)))
  | HoFs s, PSetStatus x =>
      if fs_resp s then done (HoFs (fs_set s (fs_action s) x (fs_first s) (fs_second s) (fs_msg s)))
      else refused EOther o
  | HoFs s, PSetMsg v =>
      if fs_resp s then
        match lv_new v with
        | Ok v' => done (HoFs (fs_set s (fs_action s) (fs_status s) (fs_first s) (fs_second s) (lvh_of v')))
        | Err e => refused e o
        end
      else refused EOther o
  | HoFs s, PSubMsgValue v =>
      if fs_resp s then
        done (HoFs (fs_set s (fs_action s) (fs_status s) (fs_first s) (fs_second s) (lvh_set_value (fs_msg s) v)))
      else refused EOther o
  | HoFs s, (PSetType _ | PSetValue _) => refused EAttribute o
  (* ---- an operation the harness never applies to this class ---- *)
  | _, _ => refused EOther o
  end.

(* the non-mutating observations made after every step *)
Definition cache_view (c : option tlv) : list Z :=
  match c with None => [0] | Some t => 1 :: tlv_type t :: tlv_value t end.

Definition hview (o : hobj) : list (list Z) :=
  match o with
  | HoLv l => [lh_value l; [lh_len l; lvh_packet_len l]]
  | HoTlv t => [[tlv_type t]; tlv_value t; [len (tlv_value t); tlv_packet_len t]]
  | HoWrap c t => [[c; tlv_type t]; tlv_value t; [tlv_packet_len t]]
  | HoFault cc hc t => [[cc; hc; TLV_FAULT_HANDLER; tlv_type t]; tlv_value t; [tlv_packet_len t]]
  | HoFs s => [[fs_action s; fs_status s]; fs_first s; fs_second s; lh_value (fs_msg s);
               [lh_len (fs_msg s); fsh_packet_len s]; cache_view (fs_cache s)]
  end.

(* ---- how the object came into being ----
   kind: 0 CfdpLv, 1 CfdpTlv, 10 + t the concrete class of TLV type t
   path: 0/1 constructor (two argument flavours), 2 from_str, 3 from_path, 4/5 unpack (bytes / bytearray),
         6 from_tlv, 7 TlvHolder(generic).to_x(), 8 TlvHolder(concrete).to_x(), 9 the second of two
         TlvHolder(generic).to_x() calls *)
Definition hkind_type (kind : Z) : Z := kind - 10.

Definition hnew_concrete (ty : Z) (decoded : bool) (a1 : list Z) (a2 a3 a4 : bytes) (g : tlv) (data : bytes)
                         (from_generic : bool) : res hobj :=
  if ty =? TLV_ENTITY_ID then
    do t <- (if decoded then (if from_generic then entity_from_tlv g else entity_unpack data) else entity_new a2);
    Ok (HoWrap TLV_ENTITY_ID t)
  else if ty =? TLV_FLOW_LABEL then
    do t <- (if decoded then (if from_generic then flow_from_tlv g else flow_unpack data) else flow_new a2);
    Ok (HoWrap TLV_FLOW_LABEL t)
  else if ty =? TLV_MESSAGE_TO_USER then
    do t <- (if decoded then (if from_generic then msg_from_tlv g else msg_unpack data) else msg_new a2);
    Ok (HoWrap TLV_MESSAGE_TO_USER t)
  else if ty =? TLV_FAULT_HANDLER then
    do f <- (if decoded then (if from_generic then fault_from_tlv g else fault_unpack data)
             else fault_new (nth 0 a1 0) (nth 1 a1 0));
    Ok (HoFault (fh_cc f) (fh_hc f) (fh_tlv f))
  else if ty =? TLV_FILESTORE_REQUEST then
    do r <- (if decoded then (if from_generic then fsreq_from_tlv g else fsreq_unpack data)
             else Ok {| fq_action := nth 0 a1 0; fq_first := a2; fq_second := a3 |});
    Ok (HoFs (fsh_of_req r))
  else if ty =? TLV_FILESTORE_RESPONSE then
    do r <- (if decoded then (if from_generic then fsresp_from_tlv g else fsresp_unpack data)
             else do m <- lv_new a4;
                  Ok {| fp_action := nth 0 a1 0; fp_status := nth 1 a1 0; fp_first := a2; fp_second := a3;
                        fp_msg := m |});
    Ok (HoFs (fsh_of_resp r))
  else Err EOther.

(* arguments: constructor paths: the constructor's arguments (a1 integers, a2.. octet strings);
   unpack paths: a2 = the octets; from_tlv / holder paths: a1 = [type], a2 = value of the generic TLV *)
Definition hnew (kind path : Z) (a1 : list Z) (a2 a3 a4 : bytes) : res hobj :=
  if kind =? 0 then
    if (path =? 4) || (path =? 5) then do v <- lv_unpack a2; Ok (HoLv (lvh_of v))
    else if (path =? 2) || (path =? 3) then do v <- lv_from_str a2; Ok (HoLv (lvh_of v))
    else do v <- lv_new a2; Ok (HoLv (lvh_of v))
  else if kind =? 1 then
    if (path =? 4) || (path =? 5) then do t <- tlv_unpack a2; Ok (HoTlv t)
    else do t <- tlv_new (nth 0 a1 0) a2; Ok (HoTlv t)
  else
    let ty := hkind_type kind in
    if path <=? 1 then hnew_concrete ty false a1 a2 a3 a4 {| tlv_type := 0; tlv_value := [] |} [] false
    else if (path =? 4) || (path =? 5) then
      hnew_concrete ty true a1 a2 a3 a4 {| tlv_type := 0; tlv_value := [] |} a2 false
    else
      do g <- tlv_new (nth 0 a1 0) a2;
      hnew_concrete ty true a1 a2 a3 a4 g [] true.

(* the whole history: the view after construction, then (outcome, view) of every step *)
Fixpoint hrun (o : hobj) (ps : list hop) : list (res bytes * list (list Z)) :=
  match ps with
  | [] => []
  | p :: rest => let '(r, o') := hstep o p in (r, hview o') :: hrun o' rest
  end.
