(* Model of spacepackets/cfdp/pdu/keep_alive.py (KeepAlivePdu).  Definitions only. *)
From Coq Require Import ZArith List Bool.
From SP Require Import Base.Result Base.Bytes Base.Crc16 Model.PduHeader Model.FileDirective.
Import ListNotations.
Open Scope Z_scope.

Record KeepAlivePdu := { ka_fd : fdir; ka_progress : Z }.

(* KeepAlivePdu.__init__(pdu_conf, progress) *)
Definition ka_new (conf : PduConfig) (progress : Z) : res (KeepAlivePdu * PduConfig) :=
  let l := 4 in
  let l := if cf_large conf =? FILE_LARGE then 8 else l in
  let l := if cf_crc conf =? CRC_WITH_CRC then l + 2 else l in
  let conf' := conf_set_dir conf DIR_TOWARDS_SENDER in
  do f <- fdir_new conf' DT_KEEP_ALIVE l;
  Ok ({| ka_fd := f; ka_progress := progress |}, conf).

(* file_flag setter: header.file_flag = f (the copied PduConfig), then the parameter length *)
Definition ka_set_file_flag (p : KeepAlivePdu) (flag : Z) : res KeepAlivePdu :=
  let l := 4 in
  let l := if flag =? FILE_LARGE then 8 else l in
  let l := if cf_crc (h_conf (fd_hdr (ka_fd p))) =? CRC_WITH_CRC then l + 2 else l in
  let f := ka_fd p in
  let f := {| fd_hdr := hdr_with_conf (fd_hdr f) (conf_set_large (h_conf (fd_hdr f)) flag);
              fd_type := fd_type f |} in
  do f <- fdir_set_param_len f l;
  Ok {| ka_fd := f; ka_progress := ka_progress p |}.

Definition ka_packet_len (p : KeepAlivePdu) : Z := fdir_packet_len (ka_fd p).

(* KeepAlivePdu.pack *)
Definition ka_pack (p : KeepAlivePdu) : res bytes :=
  do b <- fdir_pack (ka_fd p);
  do s <- (if negb (hdr_large_file (fd_hdr (ka_fd p))) then
             if ka_progress p >? 2 ^ 32 - 1 then Err EValue
             else struct_pack 4 (ka_progress p)
           else struct_pack 8 (ka_progress p));
  let b := b ++ s in
  if cf_crc (h_conf (fd_hdr (ka_fd p))) =? CRC_WITH_CRC then
    do c <- struct_pack 2 (crc16 b); Ok (b ++ c)
  else Ok b.

(* KeepAlivePdu.__empty() *)
Definition ka_empty : res KeepAlivePdu :=
  do r <- ka_new conf_empty 0; Ok (fst r).

(* KeepAlivePdu.unpack *)
Definition ka_unpack (data : bytes) : res KeepAlivePdu :=
  do p <- ka_empty;
  do f <- fdir_unpack data;
  do _ <- hdr_verify_length_and_checksum (fd_hdr f) data;
  (* data = data[:end_of_params]: the octets of this PDU in front of its CRC trailer *)
  let end_of_params :=
    if cf_crc (h_conf (fd_hdr f)) =? CRC_WITH_CRC then fdir_packet_len f - 2 else fdir_packet_len f in
  let data := slice_to data end_of_params in
  let current_idx := fdir_header_len f in
  let n := if negb (hdr_large_file (fd_hdr f)) then 4 else 8 in
  if len data - current_idx <? n then Err EValue else
  do v <- struct_unpack (Z.to_nat n) (slice data current_idx (current_idx + n));
  Ok {| ka_fd := f; ka_progress := v |}.

Definition ka_eqb (a b : KeepAlivePdu) : bool :=
  fdir_eqb (ka_fd a) (ka_fd b) && (ka_progress a =? ka_progress b).
