(* Model of spacepackets/ccsds/spacepacket.py (header classes, helpers,
   SpacePacket.pack, parse_space_packets).  Definitions only. *)
From Coq Require Import ZArith List Bool.
From SP Require Import Base.Result Base.Bytes.
Import ListNotations.
Open Scope Z_scope.

Definition CCSDS_HEADER_LEN : Z := 6.
Definition SEQ_FLAG_MASK : Z := 49152.       (* 0xC000 *)
Definition APID_MASK : Z := 2047.            (* 0x7FF *)
Definition PACKET_ID_MASK : Z := 8191.       (* 0x1FFF *)
Definition MAX_SEQ_COUNT : Z := 16383.
Definition MAX_APID : Z := 2047.
Definition PT_TM : Z := 0.
Definition PT_TC : Z := 1.
Definition SF_CONT : Z := 0.
Definition SF_FIRST : Z := 1.
Definition SF_LAST : Z := 2.
Definition SF_UNSEG : Z := 3.

(* ---- PacketSeqCtrl ---- *)
Record psc := { psc_flags : Z; psc_count : Z }.

Definition psc_new (flags count : Z) : res psc :=
  if (count >? MAX_SEQ_COUNT) || (count <? 0) then Err EValue
  else Ok {| psc_flags := flags; psc_count := count |}.

Definition psc_raw (p : psc) : Z := Z.lor (Z.shiftl (psc_flags p) 14) (psc_count p).

Definition psc_from_raw (raw : Z) : res psc :=
  psc_new (Z.land (Z.shiftr raw 14) 3) (Z.land raw (Z.lnot SEQ_FLAG_MASK)).

(* ---- PacketId ---- *)
Record pid := { pid_ptype : Z; pid_shf : Z; pid_apid : Z }.

Definition pid_new (ptype shf apid : Z) : res pid :=
  if (apid >? 2047) || (apid <? 0) then Err EValue
  else Ok {| pid_ptype := ptype; pid_shf := shf; pid_apid := apid |}.

Definition pid_raw (p : pid) : Z :=
  Z.lor (Z.lor (Z.shiftl (pid_ptype p) 12) (Z.shiftl (pid_shf p) 11)) (pid_apid p).

Definition pid_from_raw (raw : Z) : res pid :=
  pid_new (Z.land (Z.shiftr raw 12) 1) (Z.land (Z.shiftr raw 11) 1) (Z.land raw APID_MASK).

(* ---- SpacePacketHeader ---- *)
Record sph := {
  ver : Z; ptype : Z; shf : Z; apid : Z; sflags : Z; scount : Z; dlen : Z }.

Definition sph_pid (h : sph) : pid :=
  {| pid_ptype := ptype h; pid_shf := shf h; pid_apid := apid h |}.
Definition sph_psc (h : sph) : psc :=
  {| psc_flags := sflags h; psc_count := scount h |}.

(* SpacePacketHeader.__init__ : data_len check, then PacketId, then PacketSeqCtrl *)
Definition sph_new (ptype apid scount dlen shf sflags ver : Z) : res sph :=
  if (dlen >? 65535) || (dlen <? 0) then Err EValue else
  do p <- pid_new ptype shf apid;
  do s <- psc_new sflags scount;
  Ok {| ver := ver; ptype := pid_ptype p; shf := pid_shf p; apid := pid_apid p;
        sflags := psc_flags s; scount := psc_count s; dlen := dlen |}.

(* SpacePacketHeader.pack(): the three range checks (APID, sequence count, data length -- the
   setters do not validate, so pack() refuses what they let in), then three struct.pack("!H") *)
Definition sph_pack (h : sph) : res bytes :=
  if (apid h >? MAX_APID) || (apid h <? 0) then Err EValue else
  if (scount h >? MAX_SEQ_COUNT) || (scount h <? 0) then Err EValue else
  if (dlen h >? 65535) || (dlen h <? 0) then Err EValue else
  do w0 <- struct_pack 2 (Z.lor (Z.shiftl (ver h) 13) (pid_raw (sph_pid h)));
  do w1 <- struct_pack 2 (psc_raw (sph_psc h));
  do w2 <- struct_pack 2 (dlen h);
  Ok (w0 ++ w1 ++ w2).

Definition sph_packet_len (h : sph) : Z := CCSDS_HEADER_LEN + dlen h + 1.

Definition sph_unpack (data : bytes) : res sph :=
  if len data <? 6 then Err ETooShort else
  do d0 <- py_get data 0;
  do d1 <- py_get data 1;
  let packet_version := Z.land (Z.shiftr d0 5) 7 in
  let packet_type := Z.land (Z.shiftr d0 4) 1 in
  let secondary_header_flag := Z.land (Z.shiftr d0 3) 1 in
  let apid := Z.lor (Z.shiftl (Z.land d0 7) 8) d1 in
  do pscw <- struct_unpack 2 (slice data 2 4);
  let sequence_flags := Z.shiftr (Z.land pscw SEQ_FLAG_MASK) 14 in
  let ssc := Z.land pscw (Z.lnot SEQ_FLAG_MASK) in
  do dl <- struct_unpack 2 (slice data 4 6);
  sph_new packet_type apid ssc dl secondary_header_flag sequence_flags packet_version.

Definition sph_eqb (a b : sph) : bool :=
  match sph_pack a, sph_pack b with
  | Ok x, Ok y => bytes_eqb x y
  | _, _ => false
  end.

(* ---- free functions ---- *)
Definition get_space_packet_id_bytes (ptype shf apid version : Z) : Z * Z :=
  (Z.lor (Z.lor (Z.lor (Z.land (Z.shiftl version 5) 224)
                       (Z.shiftl (Z.land ptype 1) 4))
                (Z.shiftl (Z.land shf 1) 3))
         (Z.shiftr (Z.land apid 1792) 8),
   Z.land apid 255).

Definition get_sp_packet_id_raw (ptype shf apid : Z) : res Z :=
  do p <- pid_new ptype shf apid; Ok (pid_raw p).
Definition get_sp_psc_raw (flags count : Z) : res Z :=
  do p <- psc_new flags count; Ok (psc_raw p).

Definition get_apid_from_raw_space_packet (raw : bytes) : res Z :=
  if len raw <? 6 then Err EValue else
  do d0 <- py_get raw 0; do d1 <- py_get raw 1;
  Ok (Z.lor (Z.shiftl (Z.land d0 7) 8) d1).

Definition get_total_space_packet_len_from_len_field (len_field : Z) : Z :=
  len_field + 6 + 1.

(* ---- SpacePacket.pack ---- *)
Definition space_packet_pack (h : sph) (sec_header user_data : option bytes) : res bytes :=
  do hdr <- sph_pack h;
  do p1 <- (if negb (shf h =? 0) then
              match sec_header with None => Err EValue | Some s => Ok (hdr ++ s) end
            else
              match user_data with None => Err EValue | Some _ => Ok hdr end);
  match user_data with None => Ok p1 | Some u => Ok (p1 ++ u) end.

(* ---- operation histories over a header object (every public setter; none of them
   validates its argument: pack() does).  `h.apid = v` and `h.packet_id.apid = v` (and likewise the other
   sub-object routes through the public packet_id / packet_seq_control attributes) are the
   same assignment in the code, hence the same operation here.  data_len is a plain
   attribute. ---- *)
Inductive sph_op :=
| SoApid (v : Z) | SoCount (v : Z) | SoFlags (v : Z) | SoPtype (v : Z) | SoShf (v : Z)
| SoDlen (v : Z) | SoPack | SoObserve | SoEqFresh.

Definition sph_apply (h : sph) (o : sph_op) : sph :=
  match o with
  | SoApid v => {| ver := ver h; ptype := ptype h; shf := shf h; apid := v;
                   sflags := sflags h; scount := scount h; dlen := dlen h |}
  | SoCount v => {| ver := ver h; ptype := ptype h; shf := shf h; apid := apid h;
                    sflags := sflags h; scount := v; dlen := dlen h |}
  | SoFlags v => {| ver := ver h; ptype := ptype h; shf := shf h; apid := apid h;
                    sflags := v; scount := scount h; dlen := dlen h |}
  | SoPtype v => {| ver := ver h; ptype := v; shf := shf h; apid := apid h;
                    sflags := sflags h; scount := scount h; dlen := dlen h |}
  | SoShf v => {| ver := ver h; ptype := ptype h; shf := v; apid := apid h;
                  sflags := sflags h; scount := scount h; dlen := dlen h |}
  | SoDlen v => {| ver := ver h; ptype := ptype h; shf := shf h; apid := apid h;
                   sflags := sflags h; scount := scount h; dlen := v |}
  | SoPack | SoObserve | SoEqFresh => h
  end.

(* SpacePacketHeader.__eq__ : self.pack() == other.pack() (either pack may raise) *)
Definition sph_eq_res (a b : sph) : res bool :=
  do x <- sph_pack a; do y <- sph_pack b; Ok (bytes_eqb x y).

(* fresh = SpacePacketHeader(<the object's current attribute values>) -- also what
   from_composite_fields(h.packet_id, h.packet_seq_control, h.data_len, h.ccsds_version)
   builds --, then h == fresh and fresh == h *)
Definition sph_eq_fresh (h : sph) : res (bool * bool) :=
  do f <- sph_new (ptype h) (apid h) (scount h) (dlen h) (shf h) (sflags h) (ver h);
  do e1 <- sph_eq_res h f; do e2 <- sph_eq_res f h; Ok (e1, e2).

(* SpacePacketHeader.from_composite_fields(PacketId(..), PacketSeqCtrl(..), dlen, ver) *)
Definition sph_from_composite (ptype apid scount dlen shf sflags ver : Z) : res sph :=
  do p <- pid_new ptype shf apid;
  do s <- psc_new sflags scount;
  sph_new (pid_ptype p) (pid_apid p) (psc_count s) dlen (pid_shf p) (psc_flags s) ver.

(* ---- SpacePacket object: header + optional secondary header + optional user data ---- *)
Record spkt := { sp_h : sph; sp_sec : option bytes; sp_ud : option bytes }.

Definition spkt_pack (p : spkt) : res bytes := space_packet_pack (sp_h p) (sp_sec p) (sp_ud p).

Definition opt_bytes_eqb (a b : option bytes) : bool :=
  match a, b with
  | None, None => true
  | Some x, Some y => bytes_eqb x y
  | _, _ => false
  end.

(* SpacePacket.__eq__ : header == header and sec == sec and user_data == user_data
   (short-circuit; the header comparison packs both headers) *)
Definition spkt_eq (a b : spkt) : res bool :=
  do e <- sph_eq_res (sp_h a) (sp_h b);
  Ok (e && opt_bytes_eqb (sp_sec a) (sp_sec b) && opt_bytes_eqb (sp_ud a) (sp_ud b)).

Inductive spkt_op :=
| SpHdr (o : sph_op) | SpSetSec (s : option bytes) | SpSetUd (u : option bytes)
| SpPack | SpObserve | SpEqFresh.

Definition spkt_apply (p : spkt) (o : spkt_op) : spkt :=
  match o with
  | SpHdr so => {| sp_h := sph_apply (sp_h p) so; sp_sec := sp_sec p; sp_ud := sp_ud p |}
  | SpSetSec s => {| sp_h := sp_h p; sp_sec := s; sp_ud := sp_ud p |}
  | SpSetUd u => {| sp_h := sp_h p; sp_sec := sp_sec p; sp_ud := u |}
  | SpPack | SpObserve | SpEqFresh => p
  end.

(* fresh = SpacePacket(SpacePacketHeader(<current values>), <copies of the parts>) *)
Definition spkt_eq_fresh (p : spkt) : res (bool * bool) :=
  let h := sp_h p in
  do f <- sph_new (ptype h) (apid h) (scount h) (dlen h) (shf h) (sflags h) (ver h);
  let q := {| sp_h := f; sp_sec := sp_sec p; sp_ud := sp_ud p |} in
  do e1 <- spkt_eq p q; do e2 <- spkt_eq q p; Ok (e1, e2).
