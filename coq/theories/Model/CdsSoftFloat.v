(* IEEE-754 binary64 arithmetic restricted to what cds.py needs, on integers:
   a finite double is m * 2^e with m = 0 or 2^52 <= |m| < 2^53 (normal range only; every
   value occurring in cds.py for timestamps in range has magnitude in [2^-30, 2^40] or is 0,
   far from the subnormal / overflow thresholds).  Every operation is "exact rational result,
   then round to nearest, ties to even" (rne), which is what IEEE-754 prescribes for
   + - * / and what CPython does for int/int true division and float(int).
   Definitions only.  The extracted functions are compared bit for bit (mantissa, exponent)
   with CPython by the correspondence check of C14. *)
From Coq Require Import ZArith List Bool.
Import ListNotations.
Open Scope Z_scope.

Record fl := { fm : Z; fe : Z }.

Definition fzero : fl := {| fm := 0; fe := 0 |}.

(* a / (d * 2^e) as a fraction of integers *)
Definition scale2 (a d e : Z) : Z * Z :=
  if 0 <=? e then (a, d * 2 ^ e) else (a * 2 ^ (- e), d).

(* round the rational n / d (d > 0) to the nearest double, ties to even *)
Definition rne (n d : Z) : fl :=
  if n =? 0 then fzero else
  let a := Z.abs n in
  let e0 := Z.log2 a - Z.log2 d - 53 in
  let '(p0, q0) := scale2 a d e0 in
  let e := if p0 / q0 <? 2 ^ 53 then e0 else e0 + 1 in
  let '(p, q) := scale2 a d e in
  let m := p / q in
  let r := p mod q in
  let m1 := if 2 * r <? q then m
            else if q <? 2 * r then m + 1
            else if Z.even m then m else m + 1 in
  if m1 =? 2 ^ 53 then {| fm := Z.sgn n * 2 ^ 52; fe := e + 1 |}
  else {| fm := Z.sgn n * m1; fe := e |}.

(* round n * 2^e *)
Definition rne2 (n e : Z) : fl :=
  if 0 <=? e then rne (n * 2 ^ e) 1 else rne n (2 ^ (- e)).

(* float(int) *)
Definition of_Z (z : Z) : fl := rne z 1.

Definition fadd (x y : fl) : fl :=
  let e := Z.min (fe x) (fe y) in
  rne2 (fm x * 2 ^ (fe x - e) + fm y * 2 ^ (fe y - e)) e.
Definition fopp (x : fl) : fl := {| fm := - fm x; fe := fe x |}.
Definition fsub (x y : fl) : fl := fadd x (fopp y).
Definition fmul (x y : fl) : fl := rne2 (fm x * fm y) (fe x + fe y).
(* x / y for y <> 0 *)
Definition fdiv (x y : fl) : fl :=
  let n := fm x * Z.sgn (fm y) in
  let d := Z.abs (fm y) in
  let e := fe x - fe y in
  if 0 <=? e then rne (n * 2 ^ e) d else rne n (d * 2 ^ (- e)).

(* math.floor(x), int(x) (toward zero) *)
Definition ffloor (x : fl) : Z :=
  if 0 <=? fe x then fm x * 2 ^ fe x else fm x / 2 ^ (- fe x).
Definition ftrunc (x : fl) : Z :=
  if 0 <=? fe x then fm x * 2 ^ fe x else Z.quot (fm x) (2 ^ (- fe x)).
(* modf: x = ftrunc x + ffrac x, both with the sign of x; the fraction is exact *)
Definition ffrac (x : fl) : fl :=
  if 0 <=? fe x then fzero else rne2 (Z.rem (fm x) (2 ^ (- fe x))) (fe x).

Definition fneg (x : fl) : bool := fm x <? 0.

(* C round(): half away from zero, to an integer *)
Definition fround_away (x : fl) : Z :=
  if 0 <=? fe x then fm x * 2 ^ fe x else
  let q := 2 ^ (- fe x) in
  let a := Z.abs (fm x) in
  Z.sgn (fm x) * ((2 * a + q) / (2 * q)).
(* round half to even, to an integer (pytime_round with _PyTime_ROUND_HALF_EVEN:
   rounded = round(x); if fabs(x - rounded) == 0.5 then rounded = 2.0 * round(x / 2.0)) *)
Definition fround_even (x : fl) : Z :=
  if 0 <=? fe x then fm x * 2 ^ fe x else
  let q := 2 ^ (- fe x) in
  let r := fround_away x in
  if Z.abs (2 * (fm x - r * q)) =? q
  then 2 * fround_away {| fm := fm x; fe := fe x - 1 |}
  else r.
