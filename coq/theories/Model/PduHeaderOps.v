(* Operation histories on a PduHeader and the PduConfig / UnsignedByteField objects reachable
   from it (spacepackets/cfdp/pdu/header.py, cfdp/conf.py, the value setter of util.py).
   Every public way of changing a header after it was built is an operation:
   the property setters of PduHeader, plain assignment of its public attributes
   (segment_metadata_flag, pdu_conf), assignment of the dataclass attributes of the
   PduConfig it aliases, and the value setter (int and octets variant) of the three
   UnsignedByteField objects.  Definitions only. *)
From Coq Require Import ZArith List Bool.
From SP Require Import Base.Result Base.Bytes Model.PduHeader.
Import ListNotations.
Open Scope Z_scope.

(* ---- util.py : UnsignedByteField.value setter ---- *)

(* int branch: _verify_int_value, self._val = val, to_unsigned(byte_len, value) *)
Definition ubf_set_int (u : ubf) (v : Z) : res ubf :=
  if (v >? 2 ^ (ubf_len u * 8) - 1) || (v <? 0) then Err EValue else
  do _ <- to_unsigned (ubf_len u) v;
  Ok {| ubf_val := v; ubf_len := ubf_len u |}.

(* bytes / bytearray branch: _verify_bytes_value(bytes(val)): at least byte_len octets, the
   first byte_len of them are the value (and the cached octets) *)
Definition ubf_set_bytes (u : ubf) (b : bytes) : res ubf :=
  if len b <? ubf_len u then Err EValue else
  let int_val := be_decode (slice b 0 (ubf_len u)) in
  if (int_val >? 2 ^ (ubf_len u * 8) - 1) || (int_val <? 0) then Err EValue else
  Ok {| ubf_val := int_val; ubf_len := ubf_len u |}.

(* ---- conf.py ---- *)

(* PduConfig.default() *)
Definition conf_default : PduConfig :=
  {| cf_src := {| ubf_val := 0; ubf_len := 1 |}; cf_dst := {| ubf_val := 0; ubf_len := 1 |};
     cf_seq := {| ubf_val := 0; ubf_len := 1 |};
     cf_mode := TM_ACKNOWLEDGED; cf_large := FILE_NORMAL; cf_crc := CRC_NO_CRC;
     cf_dir := DIR_TOWARDS_RECEIVER; cf_segctrl := SEGCTRL_NO_BOUNDARIES |}.

(* the three byte fields of a configuration: 0 source, 1 destination, 2 sequence number *)
Definition conf_get_field (c : PduConfig) (which : Z) : res ubf :=
  if which =? 0 then Ok (cf_src c) else if which =? 1 then Ok (cf_dst c)
  else if which =? 2 then Ok (cf_seq c) else Err EOther.
Definition conf_set_field (c : PduConfig) (which : Z) (u : ubf) : res PduConfig :=
  if which =? 0 then Ok (conf_set_src c u) else if which =? 1 then Ok (conf_set_dst c u)
  else if which =? 2 then Ok (conf_set_seq c u) else Err EOther.

(* ---- operations ---- *)

Inductive hdr_op :=
| HSetType (v : Z)              (* h.pdu_type = v *)
| HSetMeta (v : Z)              (* h.segment_metadata_flag = v        (plain attribute) *)
| HSetDlen (v : Z)              (* h.pdu_data_field_len = v *)
| HSetIds (sv sl dv dl : Z)     (* h.set_entity_ids(UnsignedByteField(sv, sl), UnsignedByteField(dv, dl)) *)
| HSetSeq (v l : Z)             (* h.transaction_seq_num = UnsignedByteField(v, l) *)
| HSetLarge (v : Z)             (* h.file_flag = v *)
| HSetCrc (v : Z)               (* h.crc_flag = v *)
| HSetMode (v : Z)              (* h.transmission_mode = v *)
| HSetDir (v : Z)               (* h.direction = v *)
| HSetSegctrl (v : Z)           (* h.seg_ctrl = v *)
| HFieldInt (which v : Z)       (* <field>.value = v          (field reached through the header or the config) *)
| HFieldBytes (which : Z) (b : bytes)   (* <field>.value = b  (bytes or bytearray, any length) *)
| HConfField (which v l : Z)    (* h.pdu_conf.<field> = UnsignedByteField(v, l)   (dataclass attribute: no width check) *)
| HReplaceConf (c : PduConfig)  (* h.pdu_conf = c             (plain attribute) *)
| HPack                         (* h.pack() *)
| HConfLen.                     (* h.pdu_conf.header_len() *)

(* one operation: the header afterwards and what the call returned (octets of pack(), the
   value of header_len(), nothing for an assignment); Err = the call raised and -- every
   guard of the code comes before its first assignment -- nothing was changed *)
Definition hdr_step (h : PduHeader) (o : hdr_op) : res (PduHeader * list Z) :=
  let c := h_conf h in
  match o with
  | HSetType v => Ok (hdr_set_type h v, [])
  | HSetMeta v => Ok (hdr_set_meta h v, [])
  | HSetDlen v => do h' <- hdr_set_dlen h v; Ok (h', [])
  | HSetIds sv sl dv dl =>
      do s <- ubf_new sv sl; do d <- ubf_new dv dl;
      do h' <- hdr_set_entity_ids h s d; Ok (h', [])
  | HSetSeq v l => do u <- ubf_new v l; Ok (hdr_set_seq h u, [])
  | HSetLarge v => Ok (hdr_with_conf h (conf_set_large c v), [])
  | HSetCrc v => Ok (hdr_with_conf h (conf_set_crc c v), [])
  | HSetMode v => Ok (hdr_with_conf h (conf_set_mode c v), [])
  | HSetDir v => Ok (hdr_with_conf h (conf_set_dir c v), [])
  | HSetSegctrl v => Ok (hdr_with_conf h (conf_set_segctrl c v), [])
  | HFieldInt w v =>
      do u <- conf_get_field c w; do u' <- ubf_set_int u v;
      do c' <- conf_set_field c w u'; Ok (hdr_with_conf h c', [])
  | HFieldBytes w b =>
      do u <- conf_get_field c w; do u' <- ubf_set_bytes u b;
      do c' <- conf_set_field c w u'; Ok (hdr_with_conf h c', [])
  | HConfField w v l =>
      do u <- ubf_new v l; do c' <- conf_set_field c w u; Ok (hdr_with_conf h c', [])
  | HReplaceConf c' => Ok (hdr_with_conf h c', [])
  | HPack => do b <- hdr_pack h; Ok (h, b)
  | HConfLen => Ok (h, [conf_header_len c])
  end.

(* A header together with the PduConfig object of the caller it was built from.  The header
   aliases that object (every setter above writes through to it) until h.pdu_conf is replaced;
   from then on the caller's object keeps the values it had at that moment. *)
Record hworld := { hw_hdr : PduHeader; hw_caller : PduConfig; hw_attached : bool }.

Definition hw_caller_view (w : hworld) : PduConfig :=
  if hw_attached w then h_conf (hw_hdr w) else hw_caller w.

Definition hw_of_hdr (h : PduHeader) : hworld :=
  {| hw_hdr := h; hw_caller := h_conf h; hw_attached := true |}.

Definition hw_step (w : hworld) (o : hdr_op) : res (hworld * list Z) :=
  do r <- hdr_step (hw_hdr w) o;
  match o with
  | HReplaceConf _ =>
      Ok ({| hw_hdr := fst r; hw_caller := hw_caller_view w; hw_attached := false |}, snd r)
  | _ => Ok ({| hw_hdr := fst r; hw_caller := hw_caller w; hw_attached := hw_attached w |}, snd r)
  end.

(* the octets pack() appends behind the four fixed ones *)
Definition hdr_id_octets (h : PduHeader) : bytes :=
  let c := h_conf h in ubf_as_bytes (cf_src c) ++ ubf_as_bytes (cf_seq c) ++ ubf_as_bytes (cf_dst c).
