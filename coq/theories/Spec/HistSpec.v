(* Argument conditions for the setter histories of the mutable CFDP PDUs (C11): which arguments a
   history may pass to each documented setter so that every call is accepted.  Two forms:
   - the exact, state-dependent one: the parameter set reached after every call is a valid
     parameter set of the standard (`*_valid` of the PDU specifications);
   - one on the arguments alone: each argument is valid for its field and small enough that the
     16-bit PDU data field length cannot overflow whatever the other fields hold ("roomy").
   Arithmetic and list predicates only. *)
From Coq Require Import ZArith List Bool.
From SP Require Import Base.Result Base.Bytes Model.PduHeader Spec.PduHeaderSpec Model.Lv Model.Tlv Spec.TlvSpec
  Model.Finished Model.Metadata Model.FileData Spec.PduBSpec Spec.PduCSpec Spec.FileDataSpec.
Import ListNotations.
Open Scope Z_scope.

(* ---- Finished: 1 directive code + 1 octet + responses + fault location (<= 257) + CRC (<= 2) ---- *)
Definition fin_resps_roomy (l : list fsresp) : Prop := len (cat resp_layout l) <= 65000.
Definition fin_resps_arg_ok (o : option (list fsresp)) : Prop :=
  let l := match o with None => [] | Some l => l end in Forall resp_valid l /\ fin_resps_roomy l.
Definition fin_fault_arg_ok (o : option tlv) : Prop := fault_valid o.
Definition fin_cc_arg_ok (cc : Z) : Prop := cc_valid cc.

(* ---- Metadata: 1 + 1 + file size (<= 8) + two LVs (<= 256 each) + options + CRC (<= 2) ---- *)
Definition md_opts_roomy (o : option (list tlv)) : Prop := len (cat opt_layout (opts_of o)) <= 65000.
Definition md_opts_arg_ok (o : option (list tlv)) : Prop := Forall opt_valid (opts_of o) /\ md_opts_roomy o.
Definition md_name_arg_ok (n : option bytes) : Prop := name_valid n.

(* ---- NAK: values that fit the 32-bit fields fit under either file flag; 4000 segment requests
        take at most 16 * 4001 + 3 octets ---- *)
Definition nak_segs_arg_ok (l : list (Z * Z)) : Prop :=
  Forall (fun se => in_width 4 (fst se) /\ in_width 4 (snd se)) l /\ Z.of_nat (length l) <= 4000.
Definition nak_scope_arg_ok (v : Z) : Prop := in_width 4 v.
Definition nak_flag_arg_ok (v : Z) : Prop := flag v.

(* ---- File Data: metadata (<= 64) + offset (<= 8) + data + CRC (<= 2) ---- *)
Definition fd_data_arg_ok (d : bytes) : Prop := wf_bytes d /\ len d <= 65461.
Definition fd_meta_arg_ok (m : option SegMeta) : Prop := meta_valid m.
