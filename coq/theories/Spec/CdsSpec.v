(* CCSDS 301.0-B-4 section 3.3 (CDS, 16-bit day segment, millisecond resolution, no
   sub-millisecond segment, epoch 1958-01-01): P-field 0x40, day count, milliseconds of day.
   Arithmetic only, independent of the code. *)
From Coq Require Import ZArith List.
From SP Require Import Base.Bytes Model.Cds.
Import ListNotations.
Open Scope Z_scope.

Definition cds_valid (t : cds) : Prop := 0 <= cdays t <= 65535 /\ 0 <= cms t <= 86399999.

Definition cds_layout (t : cds) : bytes := [64] ++ be_encode 2 (cdays t) ++ be_encode 4 (cms t).

(* the instant a timestamp denotes, in milliseconds relative to 1970-01-01T00:00:00Z:
   1958-01-01 is 4383 days before 1970-01-01 *)
Definition cds_instant_ms (t : cds) : Z := (cdays t - 4383) * 86400000 + cms t.

(* the timestamp of an instant given in milliseconds since 1970 *)
Definition cds_of_instant_ms (i : Z) : cds :=
  {| cdays := i / 86400000 + 4383; cms := i mod 86400000 |}.

(* an aware UTC datetime as (days since 1970-01-01, second of day, microsecond) *)
Definition dt_valid (ud sod us : Z) : Prop := 0 <= sod < 86400 /\ 0 <= us < 1000000.
Definition dt_instant_us (ud sod us : Z) : Z := (ud * 86400 + sod) * 1000000 + us.
