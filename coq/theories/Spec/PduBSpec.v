(* CCSDS 727.0-B-5 section 5.2.3 (Finished PDU, table 5-7) and 5.2.5 (Metadata PDU, table 5-9),
   written with multiplication / ++ / be_encode only, independently of the code.

   Finished PDU:
     fixed PDU header (PDU type = 0 file directive, direction = 1 toward sender)
     directive code 05
     condition code (4 bits) | spare (1 bit) | delivery code (1 bit) | file status (2 bits)
     filestore responses        TLVs, in list order
     fault location             entity-ID TLV; omitted when the condition code is
                                "No error" (0) or "Unsupported checksum type" (11)
     [ CRC-16 of everything before it ]                       iff CRC flag

   Metadata PDU:
     fixed PDU header (PDU type = 0, direction = 0 toward receiver)
     directive code 07
     reserved (1 bit) | closure requested (1 bit) | reserved (2 bits) | checksum type (4 bits)
     file size                  4 octets (8 with the large file flag), big-endian
     source file name           LV
     destination file name      LV
     options                    TLVs, in list order
     [ CRC-16 ]                                               iff CRC flag

   PDU data field length = number of octets after the header. *)
From Coq Require Import ZArith List Bool.
From SP Require Import Base.Result Base.Bytes Base.Crc16 Base.Utf8 Model.PduHeader Spec.PduHeaderSpec
  Model.Lv Model.Tlv Spec.TlvSpec Model.Finished Model.Metadata.
Import ListNotations.
Open Scope Z_scope.

Definition D_FINISHED : Z := 5.
Definition D_METADATA : Z := 7.

(* octets of a list of items laid out one after the other *)
Fixpoint cat {A} (f : A -> bytes) (l : list A) : bytes :=
  match l with [] => [] | x :: r => f x ++ cat f r end.

(* trailer *)
Definition with_crc (c : PduConfig) (pre : bytes) : bytes :=
  if cf_crc c =? 1 then pre ++ be_encode 2 (crc16 pre) else pre.
Definition crc_octets (c : PduConfig) : Z := if cf_crc c =? 1 then 2 else 0.

(* ======================= Finished ======================= *)

(* one filestore response: the status nibble is the low half of the status-code enumerator *)
Definition resp_layout (r : fsresp) : bytes :=
  fsresp_layout (fp_action r) (fp_status r mod 16) (fp_first r) (fp_second r) (fp_msg r).

(* the fault location is part of the PDU only for condition codes other than 0 and 11 *)
Definition fault_allowed (cc : Z) : bool := negb ((cc =? 0) || (cc =? 11)).
Definition fin_fault_emitted (q : FinParams) : option tlv :=
  if fault_allowed (fn_cc q) then fn_fault q else None.

Definition fin_body (q : FinParams) : bytes :=
  [fn_cc q * 16 + fn_dc q * 4 + fn_fs q]
  ++ cat resp_layout (fn_resps q)
  ++ match fin_fault_emitted q with Some t => entity_layout (tlv_value t) | None => [] end.

Definition fin_dlen (c : PduConfig) (q : FinParams) : Z := 1 + len (fin_body q) + crc_octets c.

Definition fin_header (c : PduConfig) (q : FinParams) : PduHeader :=
  {| h_type := 0; h_meta := 0; h_dlen := fin_dlen c q; h_conf := conf_set_dir c 1 |}.

Definition fin_layout (c : PduConfig) (q : FinParams) : bytes :=
  with_crc c (hdr_layout (fin_header c q) ++ [D_FINISHED] ++ fin_body q).

(* a filestore response the standard allows and the TLV can carry *)
Definition resp_valid (r : fsresp) : Prop :=
  0 <= fp_action r <= 8 /\
  is_fs_status (fp_status r) = true /\ 0 <= fp_status r /\ fp_status r / 16 = fp_action r /\
  1 + len (fs_names_layout (fp_action r) (fp_first r) (fp_second r)) + (1 + len (fp_msg r)) <= 255 /\
  utf8_valid (fp_first r) = true /\
  (second_name_present (fp_action r) = true -> utf8_valid (fp_second r) = true) /\
  wf_bytes (fp_first r) /\ wf_bytes (fp_second r) /\ wf_bytes (fp_msg r).

Definition fault_valid (o : option tlv) : Prop :=
  match o with
  | None => True
  | Some t => tlv_type t = T_ENTITY_ID /\ len (tlv_value t) <= 255 /\ wf_bytes (tlv_value t)
  end.

Definition cc_valid (cc : Z) : Prop :=
  0 <= cc <= 15 /\ cc <> 9 /\ cc <> 12 /\ cc <> 13.

Definition fin_valid (c : PduConfig) (q : FinParams) : Prop :=
  conf_valid c /\ cc_valid (fn_cc q) /\ flag (fn_dc q) /\ 0 <= fn_fs q <= 3 /\
  Forall resp_valid (fn_resps q) /\ fault_valid (fn_fault q) /\ fin_dlen c q <= 65535.

(* what a decoder can recover: the second file name of a one-name action is not transmitted,
   and neither is a fault location the condition code does not admit *)
Definition resp_norm (r : fsresp) : fsresp :=
  {| fp_action := fp_action r; fp_status := fp_status r; fp_first := fp_first r;
     fp_second := if second_name_present (fp_action r) then fp_second r else [];
     fp_msg := fp_msg r |}.
Definition fin_norm (q : FinParams) : FinParams :=
  {| fn_cc := fn_cc q; fn_dc := fn_dc q; fn_fs := fn_fs q;
     fn_resps := map resp_norm (fn_resps q); fn_fault := fin_fault_emitted q |}.

(* ======================= Metadata ======================= *)

Definition fss_width (c : PduConfig) : nat := if cf_large c =? 1 then 8%nat else 4%nat.

Definition name_octets (o : option bytes) : bytes := match o with None => [] | Some n => n end.

Definition opt_layout (t : tlv) : bytes := tlv_layout (tlv_type t) (tlv_value t).
Definition opts_of (o : option (list tlv)) : list tlv := match o with None => [] | Some l => l end.

Definition md_body (c : PduConfig) (q : MdParams) (o : option (list tlv)) : bytes :=
  [mp_closure q * 64 + mp_cstype q]
  ++ be_encode (fss_width c) (mp_fsize q)
  ++ lv_layout (name_octets (mp_src q))
  ++ lv_layout (name_octets (mp_dst q))
  ++ cat opt_layout (opts_of o).

Definition md_dlen (c : PduConfig) (q : MdParams) (o : option (list tlv)) : Z :=
  1 + len (md_body c q o) + crc_octets c.

Definition md_header (c : PduConfig) (q : MdParams) (o : option (list tlv)) : PduHeader :=
  {| h_type := 0; h_meta := 0; h_dlen := md_dlen c q o; h_conf := conf_set_dir c 0 |}.

Definition md_layout (c : PduConfig) (q : MdParams) (o : option (list tlv)) : bytes :=
  with_crc c (hdr_layout (md_header c q o) ++ [D_METADATA] ++ md_body c q o).

Definition cstype_valid (x : Z) : Prop := x = 0 \/ x = 1 \/ x = 2 \/ x = 3 \/ x = 15.

Definition name_valid (o : option bytes) : Prop :=
  len (name_octets o) <= 255 /\ wf_bytes (name_octets o).

Definition opt_valid (t : tlv) : Prop :=
  is_tlv_type (tlv_type t) = true /\ len (tlv_value t) <= 255 /\ wf_bytes (tlv_value t).

Definition md_valid (c : PduConfig) (q : MdParams) (o : option (list tlv)) : Prop :=
  conf_valid c /\ flag (mp_closure q) /\ cstype_valid (mp_cstype q) /\
  0 <= mp_fsize q < 256 ^ Z.of_nat (fss_width c) /\
  name_valid (mp_src q) /\ name_valid (mp_dst q) /\
  Forall opt_valid (opts_of o) /\ md_dlen c q o <= 65535.
