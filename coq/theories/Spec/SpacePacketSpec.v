(* CCSDS 133.0-B-2 section 4.1.3: the six octets of the primary header, written
   with multiplication / division only, independently of the code's shifts. *)
From Coq Require Import ZArith List.
From SP Require Import Base.Bytes Model.SpacePacket.
Import ListNotations.
Open Scope Z_scope.

Definition sph_valid (h : sph) : Prop :=
  0 <= ver h < 8 /\ 0 <= ptype h < 2 /\ 0 <= shf h < 2 /\ 0 <= apid h <= 2047 /\
  0 <= sflags h < 4 /\ 0 <= scount h <= 16383 /\ 0 <= dlen h <= 65535.

(* the three fields whose ranges the property names (enforced by the constructor and by pack()),
   and the four that nothing validates *)
Definition sph_in_range (h : sph) : Prop :=
  0 <= apid h <= 2047 /\ 0 <= scount h <= 16383 /\ 0 <= dlen h <= 65535.
Definition sph_rest_valid (h : sph) : Prop :=
  0 <= ver h < 8 /\ 0 <= ptype h < 2 /\ 0 <= shf h < 2 /\ 0 <= sflags h < 4.

Definition sph_word0 (h : sph) : Z := ver h * 8192 + ptype h * 4096 + shf h * 2048 + apid h.
Definition sph_word1 (h : sph) : Z := sflags h * 16384 + scount h.

Definition sph_layout (h : sph) : bytes :=
  [ ver h * 32 + ptype h * 16 + shf h * 8 + apid h / 256;
    apid h mod 256;
    sflags h * 64 + scount h / 256;
    scount h mod 256;
    dlen h / 256;
    dlen h mod 256 ].

(* the header six octets b0..b5 denote *)
Definition sph_of_octets (b0 b1 b2 b3 b4 b5 : Z) : sph :=
  {| ver := b0 / 32; ptype := (b0 / 16) mod 2; shf := (b0 / 8) mod 2;
     apid := (b0 mod 8) * 256 + b1;
     sflags := b2 / 64; scount := (b2 mod 64) * 256 + b3;
     dlen := b4 * 256 + b5 |}.
