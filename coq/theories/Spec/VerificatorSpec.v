(* The documented state machine of the PUS verification tracker (C16), transcribed from
   the class documentation of spacepackets/ecss/pus_verificator.py and DESIGN.md section 5:
   a total map request-id -> status, and one transition table per telecommand.
   Independent of the model: three-valued fields, booleans, no dictionary. *)
From Coq Require Import ZArith List Bool.
Import ListNotations.
Open Scope Z_scope.

Inductive sf := U | F | S.      (* unset / failure / success *)
Definition sf_set (x : sf) : bool := match x with U => false | _ => true end.

Record sstatus := {
  s_recvd : bool;        (* all verifications received *)
  s_acc : sf; s_sta : sf; s_step : sf;
  s_steps : list Z;
  s_comp : sf }.

Definition s_init : sstatus :=
  {| s_recvd := false; s_acc := U; s_sta := U; s_step := U; s_steps := []; s_comp := U |}.

(* report with subservice `sub` and step id `k`: new status and the `completed` flag of the
   result; None = ValueError, status unchanged *)
Definition table (sub k : Z) (t : sstatus) : option (sstatus * bool) :=
  let both := sf_set (s_acc t) && sf_set (s_sta t) in
  match sub with
  | 1 => Some ({| s_recvd := s_recvd t; s_acc := S; s_sta := s_sta t; s_step := s_step t; s_steps := s_steps t; s_comp := s_comp t |}, false)
  | 2 => Some ({| s_recvd := true; s_acc := F; s_sta := s_sta t; s_step := s_step t; s_steps := s_steps t; s_comp := s_comp t |}, true)
  | 3 => Some ({| s_recvd := s_recvd t; s_acc := s_acc t; s_sta := S; s_step := s_step t; s_steps := s_steps t; s_comp := s_comp t |}, false)
  | 4 => Some ({| s_recvd := s_recvd t || sf_set (s_acc t); s_acc := s_acc t; s_sta := F; s_step := s_step t; s_steps := s_steps t; s_comp := s_comp t |}, true)
  | 5 => Some ({| s_recvd := s_recvd t; s_acc := s_acc t; s_sta := s_sta t;
                  s_step := match s_step t with U => S | x => x end;
                  s_steps := s_steps t ++ [k]; s_comp := s_comp t |}, false)
  | 6 => Some ({| s_recvd := s_recvd t || both; s_acc := s_acc t; s_sta := s_sta t; s_step := F;
                  s_steps := s_steps t ++ [k]; s_comp := s_comp t |}, true)
  | 7 => Some ({| s_recvd := s_recvd t || both; s_acc := s_acc t; s_sta := s_sta t; s_step := s_step t;
                  s_steps := s_steps t; s_comp := S |}, true)
  | 8 => Some ({| s_recvd := s_recvd t || both; s_acc := s_acc t; s_sta := s_sta t; s_step := s_step t;
                  s_steps := s_steps t; s_comp := F |}, true)
  | _ => None
  end.

(* the tracker: a total map from request id (its 32-bit value) to status *)
Definition tracker := Z -> option sstatus.
Definition t_empty : tracker := fun _ => None.
Definition t_set (m : tracker) (k : Z) (v : option sstatus) : tracker :=
  fun k' => if k' =? k then v else m k'.

Inductive sop :=
| SAddTc (k : Z)
| SAddTm (k sub step : Z)
| SRemoveEntry (k : Z)
| SRemoveCompleted.

Inductive sout :=
| SBool (b : bool)
| SNone
| SResult (t : sstatus) (completed : bool)
| SValueError.

Definition spec_step (m : tracker) (o : sop) : tracker * sout :=
  match o with
  | SAddTc k =>
    match m k with
    | Some _ => (m, SBool false)                          (* duplicate refused *)
    | None => (t_set m k (Some s_init), SBool true)
    end
  | SAddTm k sub step =>
    match m k with
    | None => (m, SNone)                                  (* unknown request id *)
    | Some t =>
      match table sub step t with
      | None => (m, SValueError)
      | Some (t', c) => (t_set m k (Some t'), SResult t' c)
      end
    end
  | SRemoveEntry k =>
    match m k with
    | Some _ => (t_set m k None, SBool true)
    | None => (m, SBool false)
    end
  | SRemoveCompleted =>
    (fun k => match m k with Some t => if s_recvd t then None else Some t | None => None end, SNone)
  end.
