(* What the stream parser is meant to compute (CCSDS 133.0-B-2 4.1.3 framing):
   walk the octet stream; at a position whose first two octets carry a registered
   13-bit packet identification, the packet occupies (length field + 7) octets;
   a packet that is not yet complete, or a position with too few octets to decide
   (fewer than 7: a packet is at least 7 octets long), ends the walk and everything from
   there on is the remainder kept for the next call; any other octet is skipped.
   Written on the remaining suffix with arithmetic only; independent of the
   index/slice formulation of the code. *)
From Coq Require Import ZArith List Bool.
From SP Require Import Base.Bytes.
Import ListNotations.
Open Scope Z_scope.

Definition registered (raws : list Z) (b0 b1 : Z) : bool :=
  existsb (Z.eqb ((b0 * 256 + b1) mod 8192)) raws.

(* fuel = number of octets of the suffix is always enough: every step drops >= 1 octet *)
Fixpoint sscan (fuel : nat) (raws : list Z) (s : bytes) : list bytes * bytes :=
  match fuel with
  | O => ([], s)
  | S f =>
    match s with
    | b0 :: b1 :: _ :: _ :: b4 :: b5 :: _ :: _ =>           (* at least 7 octets left *)
      if registered raws b0 b1 then
        let n := Z.to_nat (b4 * 256 + b5 + 7) in
        if (n <=? length s)%nat then
          let '(p, r) := sscan f raws (skipn n s) in (firstn n s :: p, r)
        else ([], s)
      else
        sscan f raws (tl s)
    | _ => ([], s)
    end
  end.

Definition spec_stream (raws : list Z) (s : bytes) : list bytes * bytes :=
  sscan (length s) raws s.

(* a complete, well-formed space packet whose identification is registered *)
Definition wf_packet (raws : list Z) (p : bytes) : Prop :=
  wf_bytes p /\
  exists b0 b1 b2 b3 b4 b5 d, p = b0 :: b1 :: b2 :: b3 :: b4 :: b5 :: d /\
    registered raws b0 b1 = true /\ len d = b4 * 256 + b5 + 1.

(* junk j in front of s: no two-octet window starting inside j (including the window
   straddling into s) is a registered identification *)
Fixpoint junk_ok (raws : list Z) (j s : bytes) : Prop :=
  match j with
  | [] => True
  | b0 :: j' =>
    match j' ++ s with
    | b1 :: _ => registered raws b0 b1 = false
    | [] => True
    end /\ junk_ok raws j' s
  end.
