(* CCSDS 732.1-B-2: Transfer Frame Primary Header (4.1.2), truncated header (D1.2 /
   4.1.2.11), Transfer Frame Data Field header (4.1.4.1) and the order of the frame's
   fields (4.1.1), written with multiplication / division / concatenation only,
   independently of the code's shifts and masks. *)
From Coq Require Import ZArith List Bool.
From SP Require Import Base.Bytes Model.UslpHeader Model.UslpFrame.
Import ListNotations.
Open Scope Z_scope.

Definition base_valid (b : hbase) : Prop :=
  0 <= scid b <= 65535 /\ 0 <= src_dest b <= 1 /\ 0 <= vcid b <= 63 /\ 0 <= map_id b <= 15.

(* out-of-range identifiers *)
Definition ids_in_range (b : hbase) : Prop :=
  0 <= scid b <= 65535 /\ 0 <= vcid b <= 63 /\ 0 <= map_id b <= 15.

(* VCF count length 0..7 octets, the count fits that many octets; with length 0 the
   count is absent or zero. *)
Definition vcf_valid (n : Z) (c : option Z) : Prop :=
  0 <= n <= 7 /\
  match c with
  | Some v => 0 <= v < 256 ^ n
  | None => n = 0
  end.

Definition phdr_valid (h : phdr) : Prop :=
  base_valid (pbase h) /\ 0 <= frame_len h <= 65535 /\ 0 <= bypass h <= 1 /\
  0 <= prot h <= 1 /\ 0 <= ocf_flag h <= 1 /\ vcf_valid (vcf_len h) (vcf_count h).

(* TFVN 1100 | SCID 16 | src/dest 1 | VCID 6 | MAP 4 | end-of-header flag 1 *)
Definition base_layout (b : hbase) (eof : Z) : bytes :=
  [ 12 * 16 + scid b / 4096;
    (scid b / 16) mod 256;
    (scid b mod 16) * 16 + src_dest b * 8 + vcid b / 8;
    (vcid b mod 8) * 32 + map_id b * 2 + eof ].

Definition thdr_layout (b : hbase) : bytes := base_layout b 1.

Definition count_of (c : option Z) : Z := match c with Some v => v | None => 0 end.

(* ... | frame length 16 | bypass 1 | command 1 | spare 2 | OCF 1 | count length 3 | count 8n *)
Definition phdr_layout (h : phdr) : bytes :=
  base_layout (pbase h) 0 ++
  [ frame_len h / 256; frame_len h mod 256;
    bypass h * 128 + prot h * 64 + ocf_flag h * 8 + vcf_len h ] ++
  be_encode (Z.to_nat (vcf_len h)) (count_of (vcf_count h)).

(* what a decoder returns for the count: always a number (0 when the length is 0) *)
Definition phdr_norm (h : phdr) : phdr :=
  {| pbase := pbase h; frame_len := frame_len h; bypass := bypass h; prot := prot h;
     ocf_flag := ocf_flag h; vcf_len := vcf_len h; vcf_count := Some (count_of (vcf_count h)) |}.

(* ---- data field ---- *)
(* The 16-bit first-header / last-valid-octet pointer exists exactly for the three
   fixed-length construction rules 000, 001, 010 in non-truncated frames. *)
Definition spec_has_pointer (r : Z) (truncated : bool) : bool :=
  negb truncated && (r <? 3).

Definition tfdf_layout (r i : Z) (ptr : option Z) (zone : bytes) : bytes :=
  [ r * 32 + i ] ++ match ptr with Some v => be_encode 2 v | None => [] end ++ zone.

Definition opt_bytes_of (o : option bytes) : bytes := match o with Some b => b | None => [] end.

(* header ++ insert zone ++ TFDF ++ OCF ++ FECF *)
Definition frame_layout (header : bytes) (f : frame) : bytes :=
  header ++ opt_bytes_of (izone f) ++
  tfdf_layout (rules (ftfdf f)) (ident (ftfdf f)) (fhp (ftfdf f)) (tfdz (ftfdf f)) ++
  opt_bytes_of (ocf f) ++ opt_bytes_of (fecf f).

Definition hdr_layout (h : fhdr) : bytes :=
  match h with HTrunc b => thdr_layout b | HPrim p => phdr_layout p end.

(* ---- the frames the standard defines (used as hypotheses of the frame theorems) ---- *)
Definition fhp_valid (o : option Z) : Prop :=
  match o with Some v => 0 <= v <= 65535 | None => True end.
Definition is_some {A} (o : option A) : bool := match o with Some _ => true | None => false end.

(* data field: rule 0..7, protocol id 0..31, pointer supplied exactly when the standard
   has one, cached size up to date (it is after the constructor and after every use of
   the tfdz setter) *)
Definition tfdf_consistent (t : tfdf) (truncated : bool) : Prop :=
  0 <= rules t <= 7 /\ 0 <= ident t <= 31 /\ fhp_valid (fhp t) /\
  is_some (fhp t) = spec_has_pointer (rules t) truncated /\
  tsize t = tfdf_header_len (fhp t) + len (tfdz t).

Definition hdr_valid (h : fhdr) : Prop :=
  match h with HTrunc b => base_valid b | HPrim p => phdr_valid p end.

(* OCF present (4 octets) exactly when the header's OCF flag is set; never in truncated frames *)
Definition ocf_consistent (h : fhdr) (o : option bytes) : Prop :=
  match h with
  | HTrunc _ => o = None
  | HPrim p => match o with
               | None => ocf_flag p = 0
               | Some b => ocf_flag p = 1 /\ len b = 4
               end
  end.

(* the frame type a construction rule belongs to *)
Definition ftype_of_rule (r : Z) : ftype := if r <? 3 then FtFixed else FtVariable.

Definition frame_consistent (f : frame) : Prop :=
  hdr_valid (hdr f) /\ tfdf_consistent (ftfdf f) (hdr_truncated (hdr f)) /\
  ocf_consistent (hdr f) (ocf f) /\
  (* truncated frames exist only among variable-length frames *)
  (hdr_truncated (hdr f) = true -> 3 <= rules (ftfdf f)).

Definition hdr_norm (h : fhdr) : fhdr :=
  match h with HTrunc b => HTrunc b | HPrim p => HPrim (phdr_norm p) end.
Definition frame_norm (f : frame) : frame :=
  {| hdr := hdr_norm (hdr f); ftfdf := ftfdf f; izone := izone f; ocf := ocf f; fecf := fecf f |}.

(* managed parameters that match a frame *)
Definition props_match (f : frame) (p : fprops) : Prop :=
  p_fixed p = (match ftype_of_rule (rules (ftfdf f)) with FtFixed => true | FtVariable => false end) /\
  (p_fixed p = true \/ hdr_truncated (hdr f) = true -> p_len p = frame_len_of f) /\
  iz_present p = is_some (izone f) /\ (iz_present p = true -> iz_size p = opt_len (izone f)) /\
  fecf_present p = is_some (fecf f) /\ (fecf_present p = true -> fecf_size p = opt_len (fecf f)).

(* the header's frame length field holds the total number of octets minus one *)
Definition frame_len_set (f : frame) : Prop :=
  match hdr f with HPrim p => frame_len p = frame_len_of f - 1 | HTrunc _ => True end.
