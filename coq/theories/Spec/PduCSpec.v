(* CCSDS 727.0-B-5 section 5.2.6 (table 5-10): the NAK PDU, written with ++ / be_encode only.

     fixed PDU header (PDU type = 0 file directive, direction = 1 toward sender,
                       segment metadata flag = 0)
     directive code 0x08
     start of scope      4 octets (8 with the large file flag), big-endian
     end of scope        same width
     N x ( start offset, end offset )   same width each, in list order
     [ CRC-16 of everything before it ]  iff CRC flag
   PDU data field length = number of octets after the header. *)
From Coq Require Import ZArith List Bool.
From SP Require Import Base.Result Base.Bytes Base.Crc16 Model.PduHeader Spec.PduHeaderSpec.
Import ListNotations.
Open Scope Z_scope.

Record NakParams := { np_start : Z; np_end : Z; np_segs : list (Z * Z) }.

(* width of the file-size-sensitive fields *)
Definition nak_w (c : PduConfig) : nat := if cf_large c =? 1 then 8%nat else 4%nat.

Definition pair_layout (w : nat) (se : Z * Z) : bytes := be_encode w (fst se) ++ be_encode w (snd se).

Fixpoint segs_layout (w : nat) (l : list (Z * Z)) : bytes :=
  match l with [] => [] | se :: r => pair_layout w se ++ segs_layout w r end.

(* octets between header and CRC trailer *)
Definition nak_body (c : PduConfig) (q : NakParams) : bytes :=
  [8] ++ pair_layout (nak_w c) (np_start q, np_end q) ++ segs_layout (nak_w c) (np_segs q).

(* octets after the directive code (the "directive parameter field") *)
Definition nak_plen (c : PduConfig) (q : NakParams) : Z :=
  2 * Z.of_nat (nak_w c) * (1 + Z.of_nat (length (np_segs q))) + (if cf_crc c =? 1 then 2 else 0).

(* PDU data field length: directive code + parameter field *)
Definition nak_dlen (c : PduConfig) (q : NakParams) : Z := nak_plen c q + 1.

Definition nak_header (c : PduConfig) (q : NakParams) : PduHeader :=
  {| h_type := 0; h_meta := 0; h_dlen := nak_dlen c q; h_conf := conf_set_dir c 1 |}.

Definition nak_layout (c : PduConfig) (q : NakParams) : bytes :=
  let pre := hdr_layout (nak_header c q) ++ nak_body c q in
  if cf_crc c =? 1 then pre ++ be_encode 2 (crc16 pre) else pre.

Definition in_width (w : nat) (v : Z) : Prop := 0 <= v < 256 ^ Z.of_nat w.

Definition nak_valid (c : PduConfig) (q : NakParams) : Prop :=
  conf_valid c /\ in_width (nak_w c) (np_start q) /\ in_width (nak_w c) (np_end q) /\
  Forall (fun se => in_width (nak_w c) (fst se) /\ in_width (nak_w c) (snd se)) (np_segs q) /\
  nak_dlen c q <= 65535.
