(* CCSDS 727.0-B-5 section 5.2: the file-directive PDUs EOF (5.2.2, table 5-6), ACK (5.2.4,
   table 5-8), Prompt (5.2.7, table 5-12) and Keep Alive (5.2.8, table 5-13), written with
   multiplication / ++ / be_encode only, independently of the code.

     fixed PDU header (PDU type = 0 file directive, segment metadata flag = 0, direction as the
                       directive prescribes, data field length = octets after the header)
     directive code      1 octet
     directive parameters
     [ CRC-16 of everything before it ]                                   iff CRC flag

   EOF (code 4, toward receiver): condition code (4 bits) | spare (4 bits);  file checksum (4 octets);
       file size (4 octets, 8 with the large file flag);  [fault location: entity-ID TLV]
   ACK (code 6): acknowledged directive code (4 bits) | directive subtype code (4 bits; 1 for an
       acknowledged Finished PDU, else 0);  condition code (4 bits) | spare (2 bits) |
       transaction status (2 bits).  ACK of EOF travels toward the sender, ACK of Finished toward
       the receiver.
   Prompt (code 9, toward receiver): response required (1 bit) | spare (7 bits)
   Keep Alive (code 12, toward sender): progress (4 octets, 8 with the large file flag) *)
From Coq Require Import ZArith List Bool.
From SP Require Import Base.Result Base.Bytes Base.Crc16 Model.PduHeader Spec.PduHeaderSpec Spec.TlvSpec.
Import ListNotations.
Open Scope Z_scope.

Definition fss_octets (c : PduConfig) : nat := if cf_large c =? 1 then 8%nat else 4%nat.
Definition crc_octets (c : PduConfig) : Z := if cf_crc c =? 1 then 2 else 0.

(* the header of a directive PDU with n parameter octets *)
Definition directive_header (c : PduConfig) (dir n : Z) : PduHeader :=
  {| h_type := 0; h_meta := 0; h_dlen := 1 + n + crc_octets c; h_conf := conf_set_dir c dir |}.

Definition directive_pre (c : PduConfig) (dir code : Z) (params : bytes) : bytes :=
  hdr_layout (directive_header c dir (len params)) ++ [code] ++ params.

Definition directive_layout (c : PduConfig) (dir code : Z) (params : bytes) : bytes :=
  let pre := directive_pre c dir code params in
  if cf_crc c =? 1 then pre ++ be_encode 2 (crc16 pre) else pre.

(* ---------------- EOF ---------------- *)
Record EofParams := { ep_cc : Z; ep_checksum : bytes; ep_size : Z; ep_fault : option bytes }.

Definition eof_params_layout (c : PduConfig) (q : EofParams) : bytes :=
  [ep_cc q * 16] ++ ep_checksum q ++ be_encode (fss_octets c) (ep_size q) ++
  match ep_fault q with None => [] | Some v => entity_layout v end.

Definition eof_layout (c : PduConfig) (q : EofParams) : bytes :=
  directive_layout c 0 4 (eof_params_layout c q).

Definition eof_valid (c : PduConfig) (q : EofParams) : Prop :=
  conf_valid c /\ 0 <= ep_cc q <= 15 /\ wf_bytes (ep_checksum q) /\ len (ep_checksum q) = 4 /\
  0 <= ep_size q < 256 ^ Z.of_nat (fss_octets c) /\
  match ep_fault q with None => True | Some v => wf_bytes v /\ len v <= 255 end.

(* ---------------- ACK ---------------- *)
Record AckParams := { ap_code : Z; ap_cc : Z; ap_status : Z }.

(* 5.2.4: subtype 1 when a Finished PDU (directive code 5) is acknowledged *)
Definition ack_subtype_of (code : Z) : Z := if code =? 5 then 1 else 0.
(* the ACK goes back to the originator of the acknowledged PDU: EOF comes from the sender,
   Finished from the receiver *)
Definition ack_direction_of (code : Z) : Z := if code =? 5 then 0 else 1.

Definition ack_params_layout (q : AckParams) : bytes :=
  [ap_code q * 16 + ack_subtype_of (ap_code q); ap_cc q * 16 + ap_status q].

Definition ack_layout (c : PduConfig) (q : AckParams) : bytes :=
  directive_layout c (ack_direction_of (ap_code q)) 6 (ack_params_layout q).

Definition ack_valid (c : PduConfig) (q : AckParams) : Prop :=
  conf_valid c /\ (ap_code q = 4 \/ ap_code q = 5) /\ 0 <= ap_cc q <= 15 /\ 0 <= ap_status q <= 3.

(* ---------------- Prompt ---------------- *)
Definition prompt_params_layout (rr : Z) : bytes := [rr * 128].
Definition prompt_layout (c : PduConfig) (rr : Z) : bytes :=
  directive_layout c 0 9 (prompt_params_layout rr).
Definition prompt_valid (c : PduConfig) (rr : Z) : Prop := conf_valid c /\ (rr = 0 \/ rr = 1).

(* ---------------- Keep Alive ---------------- *)
Definition ka_params_layout (c : PduConfig) (progress : Z) : bytes :=
  be_encode (fss_octets c) progress.
Definition ka_layout (c : PduConfig) (progress : Z) : bytes :=
  directive_layout c 1 12 (ka_params_layout c progress).
Definition ka_valid (c : PduConfig) (progress : Z) : Prop :=
  conf_valid c /\ 0 <= progress < 256 ^ Z.of_nat (fss_octets c).
