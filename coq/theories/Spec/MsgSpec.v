(* CCSDS 727.0-B-5 section 6 (reserved CFDP messages carried in Message-to-User TLVs):
   value = "cfdp", message-type octet, fields.  Written with `*`, `++`, `be_encode` only. *)
From Coq Require Import ZArith List Bool.
From SP Require Import Base.Bytes Spec.TlvSpec.
Import ListNotations.
Open Scope Z_scope.

Definition cfdp_marker : bytes := [99; 102; 100; 112].      (* ASCII "cfdp" *)
Definition reserved_value (msg_type : Z) (fields : bytes) : bytes := cfdp_marker ++ [msg_type] ++ fields.
Definition reserved_layout (msg_type : Z) (fields : bytes) : bytes :=
  msg_layout (reserved_value msg_type fields).

(* table 6-1 message types *)
Definition MT_PROXY_PUT_REQUEST : Z := 0.
Definition MT_PROXY_TRANSMISSION_MODE : Z := 4.
Definition MT_PROXY_PUT_RESPONSE : Z := 7.
Definition MT_PROXY_PUT_CANCEL : Z := 9.
Definition MT_ORIGINATING_TRANSACTION_ID : Z := 10.
Definition MT_PROXY_CLOSURE_REQUEST : Z := 11.
Definition MT_DIRECTORY_LISTING_REQUEST : Z := 16.
Definition MT_DIRECTORY_LISTING_RESPONSE : Z := 17.
Definition MT_CUSTOM_LISTING_PARAMETERS : Z := 21.   (* library extension, not in the standard *)

(* 6.2.2 proxy put request: destination entity ID LV, source file name LV, destination file name LV *)
Definition put_request_fields (id_width : nat) (id : Z) (src dst : bytes) : bytes :=
  lv_layout (be_encode id_width id) ++ lv_layout src ++ lv_layout dst.
(* 6.2.7 proxy put response: condition code (4 bits), spare (1), delivery code (1), file status (2) *)
Definition put_response_fields (cc dc fs : Z) : bytes := [cc * 16 + dc * 4 + fs].
(* 6.2.10 closure request: spare (7 bits), closure requested (1) *)
Definition closure_fields (b : Z) : bytes := [b].
(* 6.2.4 transmission mode: spare (7 bits), mode (1) *)
Definition transmission_mode_fields (m : Z) : bytes := [m].
(* 6.2.9 originating transaction ID: reserved (1), entity-ID length - 1 (3), reserved (1),
   sequence-number length - 1 (3); source entity ID; transaction sequence number *)
Definition originating_id_fields (sw : nat) (sv : Z) (qw : nat) (qv : Z) : bytes :=
  [(Z.of_nat sw - 1) * 16 + (Z.of_nat qw - 1)] ++ be_encode sw sv ++ be_encode qw qv.
(* 6.3.2 directory listing request: directory name LV, directory file name LV *)
Definition dir_request_fields (path name : bytes) : bytes := lv_layout path ++ lv_layout name.
(* 6.3.3 directory listing response: response code (1 bit), spare (7); then as the request *)
Definition dir_response_fields (success : Z) (path name : bytes) : bytes :=
  [success * 128] ++ lv_layout path ++ lv_layout name.
(* library extension: spare (6 bits), recursive (1), all (1) *)
Definition dir_options_fields (recursive all : Z) : bytes := [recursive * 2 + all].
