(* What a sequence counter is (C19), independent of the code: the i-th call (from 0) returns
   i mod 2^w; a count file is valid when its first line is a decimal numeral (trailing
   white space allowed) of a value in [0, 2^w - 1]. *)
From Coq Require Import ZArith List Bool.
From SP Require Import Base.Result Model.SeqCount.
Import ListNotations.
Open Scope Z_scope.

Definition spec_counter (w : Z) (i : Z) : Z := i mod 2 ^ w.
Definition spec_succ (w n : Z) : Z := (n + 1) mod 2 ^ w.
Definition in_range (w v : Z) : Prop := 0 <= v <= 2 ^ w - 1.

(* value of a string of ASCII digits, Horner *)
Definition dec_value (s : list Z) : Z := fold_left (fun a c => a * 10 + (c - 48)) s 0.
Definition all_digits (s : list Z) : Prop := s <> [] /\ Forall (fun c => 48 <= c <= 57) s.
Definition spaces (s : list Z) : Prop := Forall (fun c => 9 <= c <= 13 \/ 28 <= c <= 32) s.
Definition no_newline (s : list Z) : Prop := Forall (fun c => c <> 10 /\ c <> 13) s.

(* the file content c holds the count n: first line = digits, optional blanks, then end of
   file or a line end followed by anything *)
Definition holds_count (w : Z) (c : list Z) (n : Z) : Prop :=
  exists ds ws rest, all_digits ds /\ spaces ws /\ no_newline ws /\
    (rest = [] \/ exists nl r, rest = nl :: r /\ (nl = 10 \/ nl = 13)) /\
    c = ds ++ ws ++ rest /\ dec_value ds = n /\ in_range w n.

(* the abstract counter under a history of provider operations (only the operation names are
   taken from the model): Next returns the count and moves to its successor, Current returns
   it, creating a new provider object changes nothing *)
Fixpoint spec_run (w n : Z) (ops : list file_op) : list (option (res Z)) * Z :=
  match ops with
  | [] => ([], n)
  | FNext :: r => let '(rs, n') := spec_run w (spec_succ w n) r in (Some (Ok n) :: rs, n')
  | FCurrent :: r => let '(rs, n') := spec_run w n r in (Some (Ok n) :: rs, n')
  | FRestart :: r => let '(rs, n') := spec_run w n r in (None :: rs, n')
  end.

(* what the Next calls of a history returned, in order *)
Fixpoint next_values (ops : list file_op) (rs : list (option (res Z))) : list (res Z) :=
  match ops, rs with
  | FNext :: o, Some r :: t => r :: next_values o t
  | _ :: o, _ :: t => next_values o t
  | _, _ => []
  end.
Fixpoint count_nexts (ops : list file_op) : nat :=
  match ops with [] => O | FNext :: o => S (count_nexts o) | _ :: o => count_nexts o end.

(* n mod 2^w, (n+1) mod 2^w, ... : k values *)
Fixpoint count_from (w n : Z) (k : nat) : list Z :=
  match k with O => [] | S k' => n mod 2 ^ w :: count_from w (n + 1) k' end.
