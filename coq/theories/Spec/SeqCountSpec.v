(* What a sequence counter is (C19), independent of the code: the i-th call (from 0) returns
   i mod 2^w; a count file is valid when its first line is a decimal numeral (trailing
   white space allowed) of a value in [0, 2^w - 1]. *)
From Coq Require Import ZArith List Bool.
Import ListNotations.
Open Scope Z_scope.

Definition spec_counter (w : Z) (i : Z) : Z := i mod 2 ^ w.
Definition spec_succ (w n : Z) : Z := (n + 1) mod 2 ^ w.
Definition in_range (w v : Z) : Prop := 0 <= v <= 2 ^ w - 1.

(* value of a string of ASCII digits, Horner *)
Definition dec_value (s : list Z) : Z := fold_left (fun a c => a * 10 + (c - 48)) s 0.
Definition all_digits (s : list Z) : Prop := s <> [] /\ Forall (fun c => 48 <= c <= 57) s.
Definition spaces (s : list Z) : Prop := Forall (fun c => 9 <= c <= 13 \/ 28 <= c <= 32) s.
Definition no_newline (s : list Z) : Prop := Forall (fun c => c <> 10 /\ c <> 13) s.

(* the file content c holds the count n: first line = digits, optional blanks, then end of
   file or a line end followed by anything *)
Definition holds_count (w : Z) (c : list Z) (n : Z) : Prop :=
  exists ds ws rest, all_digits ds /\ spaces ws /\ no_newline ws /\
    (rest = [] \/ exists nl r, rest = nl :: r /\ (nl = 10 \/ nl = 13)) /\
    c = ds ++ ws ++ rest /\ dec_value ds = n /\ in_range w n.
