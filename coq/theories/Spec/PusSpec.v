(* ECSS-E-ST-70-41C 7.4: PUS-C telecommand and telemetry packets, written from the field
   tables with arithmetic only; CRC = Base.Crc16 (bitwise polynomial definition). *)
From Coq Require Import ZArith List.
From SP Require Import Base.Bytes Base.Crc16 Model.SpacePacket Spec.SpacePacketSpec.
Import ListNotations.
Open Scope Z_scope.

Definition tc_body (service subservice apid seq source_id ack : Z) (app : bytes) : bytes :=
  sph_layout {| ver := 0; ptype := 1; shf := 1; apid := apid; sflags := 3; scount := seq;
                dlen := 5 + len app + 1 |}
  ++ [32 + ack; service; subservice; source_id / 256; source_id mod 256] ++ app.

Definition tc_layout (service subservice apid seq source_id ack : Z) (app : bytes) : bytes :=
  let b := tc_body service subservice apid seq source_id ack app in
  b ++ [crc16 b / 256; crc16 b mod 256].

Definition tc_args_valid (service subservice apid seq source_id ack : Z) (app : bytes) : Prop :=
  0 <= service < 256 /\ 0 <= subservice < 256 /\ 0 <= apid <= 2047 /\ 0 <= seq <= 16383 /\
  0 <= source_id < 65536 /\ 0 <= ack < 16 /\ wf_bytes app /\ len app <= 65529.

Definition tm_body (service subservice apid seq msgcnt ref dest version : Z) (stamp src : bytes) : bytes :=
  sph_layout {| ver := version; ptype := 0; shf := 1; apid := apid; sflags := 3; scount := seq;
                dlen := 7 + len stamp + len src + 1 |}
  ++ [32 + ref; service; subservice; msgcnt / 256; msgcnt mod 256; dest / 256; dest mod 256]
  ++ stamp ++ src.

Definition tm_layout (service subservice apid seq msgcnt ref dest version : Z) (stamp src : bytes) : bytes :=
  let b := tm_body service subservice apid seq msgcnt ref dest version stamp src in
  b ++ [crc16 b / 256; crc16 b mod 256].

Definition tm_args_valid (service subservice apid seq msgcnt ref dest version : Z) (stamp src : bytes) : Prop :=
  0 <= service < 256 /\ 0 <= subservice < 256 /\ 0 <= apid <= 2047 /\ 0 <= seq <= 16383 /\
  0 <= msgcnt < 65536 /\ 0 <= ref < 16 /\ 0 <= dest < 65536 /\ 0 <= version < 8 /\
  wf_bytes stamp /\ wf_bytes src /\ len stamp + len src <= 65527.

(* ---- decoder specifications: what the standard's field table assigns to an octet string,
        with the documented refusals, written on explicit cells (no model functions) ---- *)
From SP Require Import Base.Result Model.PusTc Model.PusTm.

Definition tc_decode_cells (b0 b1 b2 b3 b4 b5 b6 b7 b8 b9 b10 : Z) (d : bytes) : res tc :=
    if negb (b6 / 16 =? 2) then Err EValue else
    let n := b4 * 256 + b5 + 7 in
    if n <? 13 then Err EValue else
    if len d <? n then Err ETooShort else
    if negb (crc16 (firstn (Z.to_nat n) d) =? 0) then Err ECrc else
    Ok {| tc_sph := sph_of_octets b0 b1 b2 b3 b4 b5;
          tc_sec := {| tcs_service := b7; tcs_subservice := b8; tcs_source_id := b9 * 256 + b10;
                       tcs_ack := b6 mod 16 |};
          tc_app := slice d 11 (n - 2);
          tc_crc := Some (slice d (n - 2) n) |}.

Definition tc_decode_spec (d : bytes) : res tc :=
  match d with
  | b0 :: b1 :: b2 :: b3 :: b4 :: b5 :: b6 :: b7 :: b8 :: b9 :: b10 :: _ =>
    tc_decode_cells b0 b1 b2 b3 b4 b5 b6 b7 b8 b9 b10 d
  | _ => Err ETooShort
  end.

Definition tm_decode_cells (b0 b1 b2 b3 b4 b5 b6 b7 b8 b9 b10 b11 b12 : Z) (d : bytes) (ts : Z) : res tm :=
      let n := b4 * 256 + b5 + 7 in
      if negb (b6 / 16 =? 2) then Err EValue else
      if 7 + ts >? len d - 6 then Err ETooShort else
      if n <? 15 + ts then Err EValue else
      if negb (crc16 (firstn (Z.to_nat n) d) =? 0) then Err ECrc else
      Ok {| tm_sph := sph_of_octets b0 b1 b2 b3 b4 b5;
            tm_sec := {| tms_version := b6 / 16; tms_ref := b6 mod 16; tms_service := b7;
                         tms_subservice := b8; tms_msgcnt := b9 * 256 + b10;
                         tms_dest := b11 * 256 + b12; tms_stamp := slice d 13 (13 + ts) |};
            tm_src := slice d (13 + ts) (n - 2);
            tm_crc := Some (slice d (n - 2) n) |}.

Definition tm_decode_spec (d : bytes) (ts : Z) : res tm :=
  match d with
  | b0 :: b1 :: b2 :: b3 :: b4 :: b5 :: rest =>
    if b4 * 256 + b5 + 7 >? len d then Err ETooShort else
    match rest with
    | b6 :: b7 :: b8 :: b9 :: b10 :: b11 :: b12 :: _ =>
      tm_decode_cells b0 b1 b2 b3 b4 b5 b6 b7 b8 b9 b10 b11 b12 d ts
    | _ => Err ETooShort
    end
  | _ => Err ETooShort
  end.
