(* ECSS-E-ST-70-41C 7.4: PUS-C telecommand and telemetry packets, written from the field
   tables with arithmetic only; CRC = Base.Crc16 (bitwise polynomial definition). *)
From Coq Require Import ZArith List.
From SP Require Import Base.Bytes Base.Crc16 Model.SpacePacket Spec.SpacePacketSpec.
Import ListNotations.
Open Scope Z_scope.

Definition tc_body (service subservice apid seq source_id ack : Z) (app : bytes) : bytes :=
  sph_layout {| ver := 0; ptype := 1; shf := 1; apid := apid; sflags := 3; scount := seq;
                dlen := 5 + len app + 1 |}
  ++ [32 + ack; service; subservice; source_id / 256; source_id mod 256] ++ app.

Definition tc_layout (service subservice apid seq source_id ack : Z) (app : bytes) : bytes :=
  let b := tc_body service subservice apid seq source_id ack app in
  b ++ [crc16 b / 256; crc16 b mod 256].

Definition tc_args_valid (service subservice apid seq source_id ack : Z) (app : bytes) : Prop :=
  0 <= service < 256 /\ 0 <= subservice < 256 /\ 0 <= apid <= 2047 /\ 0 <= seq <= 16383 /\
  0 <= source_id < 65536 /\ 0 <= ack < 16 /\ wf_bytes app /\ len app <= 65529.

Definition tm_body (service subservice apid seq msgcnt ref dest version : Z) (stamp src : bytes) : bytes :=
  sph_layout {| ver := version; ptype := 0; shf := 1; apid := apid; sflags := 3; scount := seq;
                dlen := 7 + len stamp + len src + 1 |}
  ++ [32 + ref; service; subservice; msgcnt / 256; msgcnt mod 256; dest / 256; dest mod 256]
  ++ stamp ++ src.

Definition tm_layout (service subservice apid seq msgcnt ref dest version : Z) (stamp src : bytes) : bytes :=
  let b := tm_body service subservice apid seq msgcnt ref dest version stamp src in
  b ++ [crc16 b / 256; crc16 b mod 256].

Definition tm_args_valid (service subservice apid seq msgcnt ref dest version : Z) (stamp src : bytes) : Prop :=
  0 <= service < 256 /\ 0 <= subservice < 256 /\ 0 <= apid <= 2047 /\ 0 <= seq <= 16383 /\
  0 <= msgcnt < 65536 /\ 0 <= ref < 16 /\ 0 <= dest < 65536 /\ 0 <= version < 8 /\
  wf_bytes stamp /\ wf_bytes src /\ len stamp + len src <= 65527.
