(* ECSS-E-ST-70-41C 6.1.3 / 8.1: what a request ID and the source data of a service-1
   verification report are, written independently of the model (arithmetic, `be_encode`,
   `++`; no shifts, no struct formats, not calling the model's pack/unpack). *)
From Coq Require Import ZArith List Bool.
From SP Require Import Base.Bytes Base.Crc16 Model.SpacePacket Model.ReqId Spec.SpacePacketSpec Spec.PusSpec.
Import ListNotations.
Open Scope Z_scope.

(* the request ID of a telecommand: packet version number, packet ID, packet sequence
   control = the first four octets of its space packet primary header *)
Definition reqid_layout (h : sph) : bytes := firstn 4 (sph_layout h).

(* the same 32 bits read as one unsigned integer *)
Definition reqid_u32 (h : sph) : Z :=
  (ver h * 8192 + ptype h * 4096 + shf h * 2048 + apid h) * 65536 + sflags h * 16384 + scount h.

(* what the 32 bits v denote (for every 0 <= v < 2^32) *)
Definition reqid_fields_of_u32 (v : Z) : sph :=
  {| ver := v / 536870912; ptype := (v / 268435456) mod 2; shf := (v / 134217728) mod 2;
     apid := (v / 65536) mod 2048; sflags := (v / 16384) mod 4; scount := v mod 16384; dlen := 0 |}.

(* a request ID object whose fields are in range (what the PacketId / PacketSeqCtrl
   constructors and a 3-bit version number guarantee), and the header fields it stands for *)
Definition sph_of_reqid (r : reqid) : sph :=
  {| ver := rq_ver r; ptype := pid_ptype (rq_pid r); shf := pid_shf (rq_pid r); apid := pid_apid (rq_pid r);
     sflags := psc_flags (rq_psc r); scount := psc_count (rq_psc r); dlen := 0 |}.
Definition reqid_valid (r : reqid) : Prop := sph_valid (sph_of_reqid r).

(* an enumerated field (step ID, failure code) of declared width w octets: big-endian *)
Definition enum_width_ok (w : Z) : Prop := w = 1 \/ w = 2 \/ w = 4 \/ w = 8.
Definition enum_layout (w v : Z) : bytes := be_encode (Z.to_nat w) v.
Definition enum_fits (w v : Z) : Prop := enum_width_ok w /\ 0 <= v < 256 ^ w.

(* step = Some (width, value); fail = Some (code width, code, failure data) *)
Definition srv1_src_layout (h : sph) (step : option (Z * Z)) (fail : option (Z * Z * bytes)) : bytes :=
  reqid_layout h
  ++ match step with None => [] | Some (w, v) => enum_layout w v end
  ++ match fail with None => [] | Some (w, c, d) => enum_layout w c ++ d end.

Definition step_fits (step : option (Z * Z)) : Prop :=
  match step with None => True | Some (w, v) => enum_fits w v end.
Definition fail_fits (fail : option (Z * Z * bytes)) : Prop :=
  match fail with None => True | Some (w, c, d) => enum_fits w c /\ wf_bytes d end.
Definition has {A} (o : option A) : bool := match o with None => false | Some _ => true end.

(* which parameters a report of subservice k = 1..8 carries: failure notice exactly for the
   even ones (2, 4, 6, 8), step ID exactly for the step reports (5, 6) *)
Definition srv1_shape_ok (k : Z) (has_step has_fail : bool) : Prop :=
  has_fail = Z.even k /\ has_step = ((k =? 5) || (k =? 6)).

(* the whole report: a PUS-C telemetry packet of service 1 with that source data *)
Definition srv1_layout (apid k seq version ref dest : Z) (stamp : bytes)
           (h : sph) (step : option (Z * Z)) (fail : option (Z * Z * bytes)) : bytes :=
  tm_layout 1 k apid seq 0 ref dest version stamp (srv1_src_layout h step fail).

(* every argument of a report in range: the telemetry fields (service 1, message counter 0),
   the telecommand header the request ID is taken from, the enumerations on their widths;
   the whole packet fits the 16-bit length field *)
Definition srv1_args_valid (apid k seq version ref dest : Z) (stamp : bytes)
           (h : sph) (step : option (Z * Z)) (fail : option (Z * Z * bytes)) : Prop :=
  tm_args_valid 1 k apid seq 0 ref dest version stamp (srv1_src_layout h step fail) /\
  sph_valid h /\ step_fits step /\ fail_fits fail.
