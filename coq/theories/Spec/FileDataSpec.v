(* CCSDS 727.0-B-5 section 5.3 (table 5-14): the File Data PDU, written with
   multiplication / ++ / be_encode only.

     fixed PDU header (PDU type = 1 file data, direction = 0 toward receiver,
                       segment metadata flag = 1 iff segment metadata present)
     [ (record continuation state * 64 + metadata length) ; metadata ]   iff flag = 1
     offset              4 octets (8 with the large file flag), big-endian
     file data
     [ CRC-16 of everything before it ]                                   iff CRC flag
   PDU data field length = number of octets after the header. *)
From Coq Require Import ZArith List Bool.
From SP Require Import Base.Result Base.Bytes Base.Crc16 Model.PduHeader Spec.PduHeaderSpec Model.FileData.
Import ListNotations.
Open Scope Z_scope.

Definition fss_octets (c : PduConfig) : nat := if cf_large c =? 1 then 8%nat else 4%nat.

Definition fd_meta_layout (m : option SegMeta) : bytes :=
  match m with
  | None => []
  | Some s => [sm_state s * 64 + len (sm_data s)] ++ sm_data s
  end.

(* octets between header and CRC trailer *)
Definition fd_body (c : PduConfig) (q : FdParams) : bytes :=
  fd_meta_layout (fp_meta q) ++ be_encode (fss_octets c) (fp_offset q) ++ fp_data q.

Definition fd_dlen (c : PduConfig) (q : FdParams) : Z :=
  len (fd_body c q) + (if cf_crc c =? 1 then 2 else 0).

(* the header a File Data PDU carries *)
Definition fd_header (c : PduConfig) (q : FdParams) : PduHeader :=
  {| h_type := 1;
     h_meta := match fp_meta q with None => 0 | Some _ => 1 end;
     h_dlen := fd_dlen c q;
     h_conf := conf_set_dir c 0 |}.

Definition fd_layout (c : PduConfig) (q : FdParams) : bytes :=
  let pre := hdr_layout (fd_header c q) ++ fd_body c q in
  if cf_crc c =? 1 then pre ++ be_encode 2 (crc16 pre) else pre.

Definition meta_valid (m : option SegMeta) : Prop :=
  match m with
  | None => True
  | Some s => 0 <= sm_state s < 4 /\ len (sm_data s) <= 63 /\ wf_bytes (sm_data s)
  end.

Definition fd_valid (c : PduConfig) (q : FdParams) : Prop :=
  conf_valid c /\ wf_bytes (fp_data q) /\ meta_valid (fp_meta q) /\
  0 <= fp_offset q < 256 ^ Z.of_nat (fss_octets c) /\
  fd_dlen c q <= 65535.

(* the PDU object the constructor builds for (c, q) *)
Definition fd_pdu_of (c : PduConfig) (q : FdParams) : FileDataPdu :=
  {| fd_hdr := fd_header c q; fd_params := q |}.
