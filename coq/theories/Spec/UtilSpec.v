(* What an unsigned byte field is (C20), written independently of the model: arithmetic,
   `be_encode`, no struct formats, no shifts. *)
From Coq Require Import ZArith List Bool.
From SP Require Import Base.Result Base.Bytes.
Import ListNotations.
Open Scope Z_scope.

(* widths a field may have *)
Definition width_ok (w : Z) : Prop := w = 0 \/ w = 1 \/ w = 2 \/ w = 4 \/ w = 8.
(* widths the width-dispatching generator supports (documented: one of [1, 2, 4, 8]) *)
Definition gen_width_ok (w : Z) : Prop := w = 1 \/ w = 2 \/ w = 4 \/ w = 8.
(* values representable in w octets *)
Definition representable (w v : Z) : Prop := 0 <= v < 256 ^ w.

(* the octets of a field: big-endian, exactly w of them *)
Definition ubf_layout (w v : Z) : bytes := be_encode (Z.to_nat w) v.

(* two hex digits per octet, most significant first *)
Definition hex_of_bytes (l : bytes) : list Z := flat_map (fun b => [b / 16; b mod 16]) l.

(* big-endian two's complement of v in n octets *)
Definition twos_complement (n : nat) (v : Z) : bytes :=
  if v <? 0 then be_encode n (256 ^ Z.of_nat n + v) else be_encode n v.
