(* CCSDS 727.0-B-5 section 5.1.8 (LV), 5.1.9 (TLV) and 5.4 (the TLV kinds): the octets the
   standard prescribes, written with `*`, `mod`, `++` only, independently of the code. *)
From Coq Require Import ZArith List Bool.
From SP Require Import Base.Bytes.
Import ListNotations.
Open Scope Z_scope.

(* LV: one length octet, then the value *)
Definition lv_layout (v : bytes) : bytes := len v :: v.
(* TLV: type octet, length octet, value *)
Definition tlv_layout (ty : Z) (v : bytes) : bytes := ty :: len v :: v.

(* Table 5-15: TLV types *)
Definition T_FILESTORE_REQUEST : Z := 0.
Definition T_FILESTORE_RESPONSE : Z := 1.
Definition T_MESSAGE_TO_USER : Z := 2.
Definition T_FAULT_HANDLER_OVERRIDE : Z := 4.
Definition T_FLOW_LABEL : Z := 5.
Definition T_ENTITY_ID : Z := 6.

(* 5.4.1.1, table 5-16/5-17: second file name present for rename (2), append (3), replace (4) *)
Definition second_name_present (action : Z) : bool :=
  (action =? 2) || (action =? 3) || (action =? 4).
Definition fs_names_layout (action : Z) (first second : bytes) : bytes :=
  lv_layout first ++ (if second_name_present action then lv_layout second else []).

(* filestore request: action code (4 bits), spare (4 bits, zero), first name LV, [second name LV] *)
Definition fsreq_layout (action : Z) (first second : bytes) : bytes :=
  tlv_layout T_FILESTORE_REQUEST ([action * 16] ++ fs_names_layout action first second).
(* filestore response: action code (4 bits), status code (4 bits), names, filestore message LV *)
Definition fsresp_layout (action status4 : Z) (first second msg : bytes) : bytes :=
  tlv_layout T_FILESTORE_RESPONSE
    ([action * 16 + status4] ++ fs_names_layout action first second ++ lv_layout msg).
(* fault handler override: condition code (4 bits), handler code (4 bits) *)
Definition fault_layout (cc hc : Z) : bytes := tlv_layout T_FAULT_HANDLER_OVERRIDE [cc * 16 + hc].
Definition msg_layout (m : bytes) : bytes := tlv_layout T_MESSAGE_TO_USER m.
Definition flow_layout (m : bytes) : bytes := tlv_layout T_FLOW_LABEL m.
Definition entity_layout (m : bytes) : bytes := tlv_layout T_ENTITY_ID m.

(* the nine action codes of table 5-16 *)
Definition action_valid (a : Z) : Prop := 0 <= a <= 8.
