(* CCSDS 727.0-B-5 section 5.1 (table 5-1): the fixed PDU header, written with
   multiplication / division / be_encode only, independently of the code's shifts.

     octet 0 : version (3 bits) = 001 | PDU type | direction | transmission mode |
               CRC flag | large file flag
     octet 1-2 : PDU data field length (16 bits, big-endian)
     octet 3 : segmentation control | (length of entity IDs - 1) (3 bits) |
               segment metadata flag | (length of sequence number - 1) (3 bits)
     then    : source entity ID, transaction sequence number, destination entity ID,
               each big-endian in its width. *)
From Coq Require Import ZArith List.
From SP Require Import Base.Result Base.Bytes Model.PduHeader.
Import ListNotations.
Open Scope Z_scope.

Definition flag (x : Z) : Prop := x = 0 \/ x = 1.
(* the widths the library supports for entity IDs and sequence numbers *)
Definition width_ok (w : Z) : Prop := w = 1 \/ w = 2 \/ w = 4 \/ w = 8.

(* an UnsignedByteField of a supported width holding a value of that width *)
Definition ubf_valid (u : ubf) : Prop :=
  width_ok (ubf_len u) /\ 0 <= ubf_val u < 256 ^ ubf_len u.

Definition conf_valid (c : PduConfig) : Prop :=
  ubf_valid (cf_src c) /\ ubf_valid (cf_dst c) /\ ubf_valid (cf_seq c) /\
  ubf_len (cf_src c) = ubf_len (cf_dst c) /\
  flag (cf_mode c) /\ flag (cf_large c) /\ flag (cf_crc c) /\ flag (cf_dir c) /\
  flag (cf_segctrl c).

Definition hdr_valid (h : PduHeader) : Prop :=
  conf_valid (h_conf h) /\ flag (h_type h) /\ flag (h_meta h) /\ 0 <= h_dlen h <= 65535.

Definition hdr_idw (h : PduHeader) : Z := ubf_len (cf_src (h_conf h)).
Definition hdr_seqw (h : PduHeader) : Z := ubf_len (cf_seq (h_conf h)).

Definition hdr_fixed_layout (h : PduHeader) : bytes :=
  let c := h_conf h in
  [ 32 + h_type h * 16 + cf_dir c * 8 + cf_mode c * 4 + cf_crc c * 2 + cf_large c;
    h_dlen h / 256;
    h_dlen h mod 256;
    cf_segctrl c * 128 + (hdr_idw h - 1) * 16 + h_meta h * 8 + (hdr_seqw h - 1) ].

Definition hdr_layout (h : PduHeader) : bytes :=
  let c := h_conf h in
  hdr_fixed_layout h
  ++ be_encode (Z.to_nat (hdr_idw h)) (ubf_val (cf_src c))
  ++ be_encode (Z.to_nat (hdr_seqw h)) (ubf_val (cf_seq c))
  ++ be_encode (Z.to_nat (hdr_idw h)) (ubf_val (cf_dst c)).

(* the header that 4 fixed octets and the three variable fields denote *)
Definition hdr_of_octets (b0 b1 b2 b3 : Z) (src seq dst : bytes) : PduHeader :=
  {| h_type := (b0 / 16) mod 2;
     h_meta := (b3 / 8) mod 2;
     h_dlen := b1 * 256 + b2;
     h_conf := {| cf_src := {| ubf_val := be_decode src; ubf_len := (b3 / 16) mod 8 + 1 |};
                  cf_dst := {| ubf_val := be_decode dst; ubf_len := (b3 / 16) mod 8 + 1 |};
                  cf_seq := {| ubf_val := be_decode seq; ubf_len := b3 mod 8 + 1 |};
                  cf_mode := (b0 / 4) mod 2; cf_large := b0 mod 2; cf_crc := (b0 / 2) mod 2;
                  cf_dir := (b0 / 8) mod 2; cf_segctrl := b3 / 128 |} |}.

Definition widthb (w : Z) : bool := (w =? 1) || (w =? 2) || (w =? 4) || (w =? 8).

(* The decoder the standard describes, on an arbitrary octet string: what is refused
   (and how the library documents the refusal) and which header is denoted otherwise. *)
Definition hdr_decode_spec (d : bytes) : res PduHeader :=
  match d with
  | b0 :: b1 :: b2 :: b3 :: tl =>
      let iw := (b3 / 16) mod 8 + 1 in
      let qw := b3 mod 8 + 1 in
      if negb (b0 / 32 =? 1) then Err EVersion            (* version other than 001 *)
      else if negb (widthb iw) then Err EValue             (* unsupported entity-ID width *)
      else if negb (widthb qw) then Err EValue             (* unsupported sequence-number width *)
      else if len tl <? 2 * iw + qw then Err ETooShort     (* variable part incomplete *)
      else Ok (hdr_of_octets b0 b1 b2 b3
                 (slice tl 0 iw) (slice tl iw (iw + qw)) (slice tl (iw + qw) (iw + qw + iw)))
  | _ => Err ETooShort                                     (* fewer than 4 octets *)
  end.
