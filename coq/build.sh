#!/bin/sh
# regenerate _CoqProject / Makefile from the files on disk and build (full .vo)
cd "$(dirname "$0")"
{ echo "-Q theories SP"; echo "-arg -w -arg -notation-overridden,-deprecated-hint-without-locality,-deprecated-syntactic-definition,-extraction-opaque-accessed,-extraction-reserved-identifier"; ls theories/*/*.v; } > _CoqProject
coq_makefile -f _CoqProject -o Makefile >/dev/null 2>&1
exec timeout ${BUILD_TIMEOUT:-3000} make -j${JOBS:-16} "$@"
